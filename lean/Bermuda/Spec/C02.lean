/-
Executable statement of property C02, evaluated by the driver on the IMPLEMENTATION's answers.

`cellSame` / `triSame` are the *declarative* characterisation of "identical contents", written
without reference to the code's control flow (no sorting of keys, no zip, no dispatch): the
oracle against which the implementation's `==`, `hash`, `in`, `<=`, `&`, `-`, `isdisjoint` are
judged.  `Properties/C02.lean` proves that the model of the code (`Model/Eq.lean`) meets them on
well-formed input (`cellSame_eq_cellEq`, `triSame_eq_triEq`, …).

Inputs arrive in wire form: metadata detail dicts sorted by key with bool/int/float folded into
one rational, so structural equality of `Metadata` here is Python's `Metadata.__eq__`.
-/
import Bermuda.Model.Eq
import Bermuda.Spec.C01
namespace Bermuda.Spec

/-- numerically equal values of equal shape (`None` only equals `None`) -/
def valSame (x y : Val) : Bool := x.shape == y.shape && x.data == y.data

/-- same field names, and under every name numerically equal values of equal shape -/
def valuesSame (a b : Dict Val) : Bool :=
  a.keys.all (fun k => b.keys.contains k) && b.keys.all (fun k => a.keys.contains k) &&
  a.all (fun kv => match b.get? kv.1 with
    | some y => valSame kv.2 y
    | none => false)

/-- `Cell` and `CumulativeCell` are interchangeable; `IncrementalCell` is its own family -/
def sameBasis (a b : CellKind) : Bool := (a == .incremental) == (b == .incremental)

/-- the cells agree on period, evaluation date, previous evaluation date, metadata, field names
and values, and are of the same basis -/
def cellSame (a b : Cell) : Bool :=
  sameBasis a.kind b.kind && a.ps == b.ps && a.pe == b.pe && a.ev == b.ev && a.prev == b.prev &&
  a.md == b.md && valuesSame a.values b.values

/-- same number of cells and, position by position, the same cell -/
def triSame (a b : List Cell) : Bool :=
  a.length == b.length &&
  (List.range a.length).all fun i =>
    match a[i]?, b[i]? with
    | some x, some y => cellSame x y
    | _, _ => false

/-- well-formed wire cell: constructor date rules (ties `prev` to the class), canonical metadata
(key-sorted detail dicts), distinct field names -/
def wfCell (c : Cell) : Bool :=
  c.datesOk && decide c.values.keys.Nodup &&
  decide (c.md.details.Pairwise (fun a b => compare a.1 b.1 = .lt)) &&
  decide (c.md.lossDetails.Pairwise (fun a b => compare a.1 b.1 = .lt))

/-! ### clauses: each takes the implementation's answer and says whether it is the right one -/

/-- `a == b` is True exactly when the contents are identical -/
def eqClause (a b : List Cell) (implEq : Bool) : Bool := implEq == triSame a b

/-- `c1 == c2` on cells -/
def cellEqClause (a b : Cell) (implEq : Bool) : Bool := implEq == cellSame a b

/-- equal triangles have equal hashes (`implHashEq`: `hash(a) == hash(b)` as observed) -/
def hashClause (a b : List Cell) (implHashEq : Bool) : Bool := !triSame a b || implHashEq

def cellHashClause (a b : Cell) (implHashEq : Bool) : Bool := !cellSame a b || implHashEq

/-- metadata (wire form): `==` is structural equality and equal metadata hash alike -/
def metaEqClause (a b : Metadata) (implEq : Bool) : Bool := implEq == (a == b)
def metaHashClause (a b : Metadata) (implHashEq : Bool) : Bool := !(a == b) || implHashEq

/-- `c in t`: some cell of `t` is the same cell -/
def memClause (c : Cell) (t : List Cell) (impl : Bool) : Bool := impl == t.any (fun x => cellSame x c)

/-- is `c` (the same cell as) a member of `t` -/
def isIn (c : Cell) (t : List Cell) : Bool := t.any (fun x => cellSame x c)

/-- `a <= b`: `a` is not longer than `b` and every cell of `a` is in `b` -/
def leClause (a b : List Cell) (impl : Bool) : Bool :=
  impl == (decide (a.length ≤ b.length) && a.all (fun c => isIn c b))

/-- `a & b` consists of exactly the cells of `b` that are in `a` (as a multiset), in canonical order -/
def interClause (a b out : List Cell) : Bool :=
  out.isPerm (b.filter (fun c => isIn c a)) && sortedCells out

/-- `a - b` consists of exactly the cells of `a` that are not in `b`, in canonical order -/
def diffClause (a b out : List Cell) : Bool :=
  out.isPerm (a.filter (fun c => !isIn c b)) && sortedCells out

/-- `a | b`: in canonical order; holds every cell of `a` and of `b` and nothing else; when the
operands are disjoint it is exactly the cells of both (as a multiset) -/
def unionClause (a b out : List Cell) : Bool :=
  sortedCells out && a.all (fun c => isIn c out) && b.all (fun c => isIn c out) &&
  out.all (fun c => isIn c a || isIn c b) &&
  (b.any (fun c => isIn c a) || out.isPerm (a ++ b))

/-- `a ^ b`: exactly the cells of `a` not in `b` and the cells of `b` not in `a`, in canonical order -/
def xorClause (a b out : List Cell) : Bool :=
  out.isPerm (a.filter (fun c => !isIn c b) ++ b.filter (fun c => !isIn c a)) && sortedCells out

/-- `a.isdisjoint(b)`: no cell of `b` is in `a` -/
def disjClause (a b : List Cell) (impl : Bool) : Bool :=
  impl == !(b.any (fun c => isIn c a))

end Bermuda.Spec
