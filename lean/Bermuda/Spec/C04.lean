/-
Executable statement of property C04 on an (input, output) pair. Run by the driver on the
IMPLEMENTATION's outputs. Core Lean only.

`toIncRowSpec t u`  — `u` is the incremental form of the cumulative triangle `t`: per slice and
period one increment per evaluation date, whose previous evaluation date is the preceding evaluation
date of that row (the day before period start for the first) and whose values are the differences of
consecutive cumulative values, except `earned_premium`, which is carried over unchanged.
The predicate does not follow the grouping/sorting of the code: for every input cell it looks up the
predecessor in the row (greatest smaller evaluation date) directly.
-/
import Bermuda.Model.Basis
import Bermuda.Spec.C01
namespace Bermuda.Spec

/-- keys of a dict are pairwise distinct -/
def nodupKeys (d : Dict Val) : Bool :=
  match d with
  | [] => true
  | kv :: rest => !(Dict.contains rest kv.1) && nodupKeys rest

/-- equality of two value dicts as Python dicts: same key set, and under every key the same value
of the same kind (int / float / int64 array / float64 array, same shape) — insertion order ignored -/
def dictEqv (a b : Dict Val) : Bool :=
  a.length == b.length && nodupKeys a && nodupKeys b && a.all (fun kv => b.get? kv.1 == some kv.2)

/-- the cell of `c`'s row (same period, same metadata) in `t` with the greatest evaluation date
strictly before `c`'s -/
def predIn (t : List Cell) (c : Cell) : Option Cell :=
  (t.filter (fun p => rowKey p == rowKey c && p.ev < c.ev)).foldl
    (fun best p => match best with
      | none => some p
      | some b => if b.ev < p.ev then some p else some b) none

instance : BEq (Except Err Val) := ⟨fun a b => match a, b with
  | .ok x, .ok y => x == y
  | .error x, .error y => x == y
  | _, _ => false⟩

/-- `o` is the increment belonging to the cumulative cell `c` of triangle `t` -/
def incOf (t : List Cell) (c o : Cell) : Bool :=
  o.kind == .incremental && rowKey o == rowKey c && o.ev == c.ev &&
  match predIn t c with
  | none => o.prev == some c.ps.pred && dictEqv o.values c.values
  | some p =>
    o.prev == some p.ev &&
    sameKeys p.values c.values && sameKeys o.values c.values && nodupKeys o.values &&
    o.values.all fun kv =>
      if kv.1 == staticField then c.values.get? kv.1 == some kv.2
      else (Val.pySub (c.values.getD' kv.1) (p.values.getD' kv.1)) == .ok kv.2

/-- the output cells at the coordinate (row, evaluation date) of `c` -/
def atCoord (u : List Cell) (c : Cell) : List Cell :=
  u.filter (fun o => rowKey o == rowKey c && o.ev == c.ev)

/-- **C04, first clause** on a pair (cumulative triangle, its claimed incremental form) -/
def toIncRowSpec (t u : List Cell) : Bool :=
  u.length == t.length &&
  sortedCells u &&
  t.all fun c =>
    match atCoord u c with
    | [o] => incOf t c o
    | _ => false

/-- a `Cell`/`CumulativeCell` triangle seen as `CumulativeCell`s (what `to_cumulative` rebuilds) -/
def asCumulative (t : List Cell) : List Cell := t.map fun c => { c with kind := .cumulative }

/-- two cells agree in class, dates, previous date, metadata and values (as dicts, exact kinds) -/
def cellEqv (a b : Cell) : Bool :=
  a.kind == b.kind && a.ps == b.ps && a.pe == b.pe && a.ev == b.ev && a.prev == b.prev &&
  a.md == b.md && dictEqv a.values b.values

/-- cell-by-cell equality of two sequences (never the library's `==`) -/
def cellsEqv : List Cell → List Cell → Bool
  | [], [] => true
  | a :: as, b :: bs => cellEqv a b && cellsEqv as bs
  | _, _ => false

/-- `to_cumulative(to_incremental(t))` reproduces `t` (as `CumulativeCell`s) -/
def roundTripCumSpec (t back : List Cell) : Bool := cellsEqv (asCumulative t) back

/-- `to_incremental(to_cumulative(u))` reproduces `u` -/
def roundTripIncSpec (u back : List Cell) : Bool := cellsEqv u back

/-- `t` is the cumulative form of the complete incremental triangle `u`: `t` is a cumulative
triangle whose increments are `u` (the same clause read backwards) -/
def toCumRowSpec (u t : List Cell) : Bool :=
  t.all (·.kind == .cumulative) && t.all (·.prev == none) && sortedCells t &&
  toIncRowSpec t u &&
  -- every increment is accounted for exactly (values incl. kinds, not only coordinates)
  u.all fun o => match atCoord t o with
    | [c] => (match atCoord u c with | [o'] => cellEqv o o' | _ => false)
    | _ => false

end Bermuda.Spec
