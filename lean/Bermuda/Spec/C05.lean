/-
Executable statement of C05 on an (original, read-back) pair of raw triangles: "the same cells".
Dictionaries are compared as Python dicts (key order is not part of the property); everything else
— cell class, dates, every metadata attribute, the kind and bits of every value, dtype, shape and
bytes of arrays — must be identical. Run by the driver on the IMPLEMENTATION's output.
-/
import Bermuda.Model.Codec
namespace Bermuda.Spec.C05
open Bermuda.Codec

/-- first value stored under `k` -/
def rawGet? (d : RawDict) (k : Bytes) : Option RawVal := (d.find? (·.1 == k)).map (·.2)

/-- equality of two Python dicts with unique keys: same size, every entry of `a` is in `b` -/
def dictEqv (a b : RawDict) : Bool :=
  a.length == b.length && a.all (fun e => rawGet? b e.1 == some e.2)

def metaEqv (a b : RawMetadata) : Bool :=
  a.riskBasis == b.riskBasis && a.country == b.country && a.currency == b.currency &&
  a.reinsuranceBasis == b.reinsuranceBasis && a.lossDefinition == b.lossDefinition &&
  a.limit == b.limit && dictEqv a.details b.details && dictEqv a.lossDetails b.lossDetails

def cellEqv (a b : RawCell) : Bool :=
  a.kind == b.kind && a.ps == b.ps && a.pe == b.pe && a.ev == b.ev && a.prev == b.prev &&
  dictEqv a.values b.values && metaEqv a.md b.md

def cellsEqv : List RawCell → List RawCell → Bool
  | [], [] => true
  | a :: as, b :: bs => cellEqv a b && cellsEqv as bs
  | _, _ => false

/-- C05: what was read is what was written -/
def roundTrip (original decoded : RawTriangle) : Bool := cellsEqv original decoded

end Bermuda.Spec.C05
