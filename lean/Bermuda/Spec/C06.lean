/-
Executable statement of the C06 clause "a metadata record only when the metadata changes", run on
the bytes the IMPLEMENTATION wrote: the number of `0x10` records in the file equals the number of
positions in the cell sequence where the metadata differs (Python's `!=`) from the previous cell's.
-/
import Bermuda.Model.Codec
namespace Bermuda.Spec.C06
open Bermuda.Codec

def recordsOnChange (cells : RawTriangle) (file : Bytes) : Bool :=
  match fileMetaRecords file with
  | .ok n => n == metaChanges none cells
  | .error _ => false

end Bermuda.Spec.C06
