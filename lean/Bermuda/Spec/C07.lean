/-
Executable statement of property C07.

`plainRead` is an INDEPENDENT, hook-free reading of a JSON document of the documented shape
(`{"slices": [{<metadata attributes once>, "cells": [{ISO dates, "values": {...}}, …]}, …]}`):
what "a plain JSON parser recovers" and what "JSON written by a plain serializer" means. It never
calls the library's decoder (`JsonIO.decode`/`objectHook`).

The Spec predicates are run by the driver on the IMPLEMENTATION's outputs:
* `textSpec t j`   — `j = json.loads(t.to_json())` read plainly gives the original cells
* `loadSpec t out` — `out = from_json(...)` is the original triangle (cell by cell, kinds of numbers,
                     None, array order, prev dates, class)
-/
import Bermuda.Model.JsonIO
namespace Bermuda.Spec.C07
open Bermuda Bermuda.JsonIO

def jLookup (kvs : List (String × JVal)) (k : String) : Option JVal :=
  (kvs.find? (·.1 == k)).map (·.2)

/-- a flat list of numbers as numpy reads it: all ints → int64, mixed → float64, `[]` → float64 -/
def readArray (l : List JVal) : Option Val :=
  let ints := l.filterMap fun | JVal.int i => some (i : Rat) | _ => none
  let nums := l.filterMap fun | JVal.int i => some (i : Rat) | JVal.flt q => some q | _ => none
  if l.isEmpty then some (.arr false [0] [])
  else if ints.length == l.length then some (.arr true [l.length] ints)
  else if nums.length == l.length then some (.arr false [l.length] nums)
  else none

def readVal : JVal → Option Val
  | .null => some .none
  | .int i => some (.int i)
  | .flt q => some (.flt q)
  | .arr l => readArray l
  | _ => none

def readScalar : JVal → Option Scalar
  | .null => some .null | .bool b => some (.bool b) | .int i => some (.int i)
  | .flt q => some (.flt q) | .str s => some (.str s) | _ => none

def readDate (kvs : List (String × JVal)) (k : String) : Option Date :=
  match jLookup kvs k with
  | some (.str s) => match parseIso s with | .ok d => some d | .error _ => none
  | _ => none

def cellKeys : List String :=
  ["period_start", "period_end", "evaluation_date", "prev_evaluation_date", "values"]

def sliceKeys : List String :=
  ["currency", "country", "risk_basis", "reinsurance_basis", "loss_definition",
   "per_occurrence_limit", "details", "loss_details", "cells"]

/-- one cell object: three ISO dates, optionally `prev_evaluation_date` (then the cell is
incremental), and `values`; no other keys -/
def readCell : JVal → Option JCell
  | .obj kvs => do
    let keys := kvs.map (·.1)
    guard (nodupKeys keys && keys.all cellKeys.contains)
    let ps ← readDate kvs "period_start"
    let pe ← readDate kvs "period_end"
    let ev ← readDate kvs "evaluation_date"
    let incr := keys.contains "prev_evaluation_date"
    let prev ← if incr then (readDate kvs "prev_evaluation_date").map some else some none
    let values ← match jLookup kvs "values" with
      | some (.obj vs) =>
        if nodupKeys (vs.map (·.1)) && triggerFree (vs.map (·.1)) then
          vs.mapM fun kv => (readVal kv.2).map fun v => (kv.1, v)
        else none
      | _ => none
    let c : JCell := { kind := if incr then .incremental else .cumulative, ps := ps, pe := pe,
                       ev := ev, prev := prev, values := values, md := {} }
    guard c.datesOk
    pure c
  | _ => none

def readStrAttr (kvs : List (String × JVal)) (k : String) (dflt : Option String) :
    Option (Option String) :=
  match jLookup kvs k with
  | none => some dflt
  | some .null => some none
  | some (.str s) => some (some s)
  | some _ => none

def readDetails (kvs : List (String × JVal)) (k : String) : Option (Dict Scalar) :=
  match jLookup kvs k with
  | none => some []
  | some (.obj ds) =>
    if nodupKeys (ds.map (·.1)) && triggerFree (ds.map (·.1)) then
      ds.mapM fun kv => (readScalar kv.2).map fun s => (kv.1, s)
    else none
  | some _ => none

/-- one slice object: each metadata attribute at most once (absent = default), and `cells` -/
def readSlice : JVal → Option (List JCell)
  | .obj kvs => do
    let keys := kvs.map (·.1)
    guard (nodupKeys keys && keys.all sliceKeys.contains)
    let rb ← readStrAttr kvs "risk_basis" (some "Accident")
    let co ← readStrAttr kvs "country" none
    let cu ← readStrAttr kvs "currency" none
    let re ← readStrAttr kvs "reinsurance_basis" none
    let ld ← readStrAttr kvs "loss_definition" none
    let lim ← match jLookup kvs "per_occurrence_limit" with
      | none => some Scalar.null
      | some .null => some .null
      | some (.int i) => some (.int i)
      | some (.flt q) => some (.flt q)
      | some _ => none
    let det ← readDetails kvs "details"
    let ldet ← readDetails kvs "loss_details"
    let md : JMeta := { riskBasis := rb, country := co, currency := cu, reinsuranceBasis := re,
                        lossDefinition := ld, limit := lim, details := det, lossDetails := ldet }
    match jLookup kvs "cells" with
    | some (.arr cs) => (cs.mapM readCell).map fun l => l.map fun c => { c with md := md }
    | _ => none
  | _ => none

/-- the whole document: exactly `{"slices": [slice, …]}`; the cells in document order -/
def plainRead : JVal → Option (List JCell)
  | .obj [("slices", .arr ss)] => (ss.mapM readSlice).map List.flatten
  | _ => none

/-! ### comparison up to the insertion order of dict keys (not part of the property) -/

def sortByKey {α} (d : Dict α) : Dict α := d.mergeSort fun a b => compare a.1 b.1 != .gt

def JCell.canon (c : JCell) : JCell :=
  { c with values := sortByKey c.values,
           md := { c.md with details := sortByKey c.md.details,
                             lossDetails := sortByKey c.md.lossDetails } }

def sameCells (a b : List JCell) : Bool := a.map JCell.canon == b.map JCell.canon

/-- the text's AST, read plainly, is the original triangle (as typed cells, same order) -/
def textSpec (t : List JCell) (j : JVal) : Bool :=
  match plainRead j with
  | some cells => sameCells cells (asTyped t)
  | none => false

/-- every metadata attribute of a slice is written once per slice, not per cell: the number of
slice objects equals the number of slices -/
def slicesOnce (t : List JCell) (j : JVal) : Bool :=
  match j with
  | .obj [("slices", .arr ss)] => ss.length == (groupBy (fun c : JCell => c.md.toMetadata) t).length
  | _ => false

/-- the loaded triangle is the original one -/
def loadSpec (t out : List JCell) : Bool := sameCells out (asTyped t)

end Bermuda.Spec.C07
