/-
Executable statement of property C07.

`plainRead` is an INDEPENDENT, hook-free reading of a JSON document of the documented shape
(`{"slices": [{<metadata attributes once>, "cells": [{ISO dates, "values": {...}}, …]}, …]}`):
what "a plain JSON parser recovers" and what "JSON written by a plain serializer" means. It never
calls the library's decoder (`JsonIO.decode`/`objectHook`).

There are TWO plain readers, differing only in how a date string is read:
* `plainRead`       — dates by the lenient `strptime("%Y-%m-%d")` rules (`2020-1-5` accepted): the
                      domain of clause "JSON written by such a plain serializer is loaded correctly"
                      (`fromDict_plain`), kept as wide as the decoder's own tolerance;
* `plainReadStrict` — dates by `strictIso`: exactly `YYYY-MM-DD`, ten characters, ASCII digits, a
                      real calendar date; written here from ISO 8601, it does not use the model's
                      `parseIso`. This is the reader of clause "each cell with ISO dates": what the
                      LIBRARY writes must pass it (`textSpec`).
`Lemmas/JsonIOStrict.lean`: `strictIso s = some d → parseIso s = .ok d` and
`plainReadStrict j = some cells → plainRead j = some cells` (the strict reader is a restriction).

The Spec predicates are run by the driver on the IMPLEMENTATION's outputs:
* `textSpec t j`   — `j = json.loads(t.to_json())` read plainly AND STRICTLY gives the original cells
* `loadSpec t out` — `out = from_json(...)` is the original triangle (cell by cell, kinds of numbers,
                     None, array order, prev dates, class)
-/
import Bermuda.Model.JsonIO
namespace Bermuda.Spec.C07
open Bermuda Bermuda.JsonIO

def jLookup (kvs : List (String × JVal)) (k : String) : Option JVal :=
  (kvs.find? (·.1 == k)).map (·.2)

/-- a flat list of numbers as numpy reads it: all ints → int64, mixed → float64, `[]` → float64 -/
def jInt? : JVal → Option Rat
  | .int i => some i | _ => none

def jNum? : JVal → Option Rat
  | .int i => some i | .flt q => some q | _ => none

def readArray (l : List JVal) : Option Val :=
  let ints := l.filterMap jInt?
  let nums := l.filterMap jNum?
  if l.isEmpty then some (.arr false [0] [])
  else if ints.length == l.length then some (.arr true [l.length] ints)
  else if nums.length == l.length then some (.arr false [l.length] nums)
  else none

def readVal : JVal → Option Val
  | .null => some .none
  | .int i => some (.int i)
  | .flt q => some (.flt q)
  | .arr l => readArray l
  | _ => none

def readScalar : JVal → Option Scalar
  | .null => some .null | .bool b => some (.bool b) | .int i => some (.int i)
  | .flt q => some (.flt q) | .str s => some (.str s) | _ => none

def readDate (kvs : List (String × JVal)) (k : String) : Option Date :=
  match jLookup kvs k with
  | some (.str s) => match parseIso s with | .ok d => some d | .error _ => none
  | _ => none

def cellKeys : List String :=
  ["period_start", "period_end", "evaluation_date", "prev_evaluation_date", "values"]

def sliceKeys : List String :=
  ["currency", "country", "risk_basis", "reinsurance_basis", "loss_definition",
   "per_occurrence_limit", "details", "loss_details", "cells"]

def readValues (kvs : List (String × JVal)) : Option (Dict Val) :=
  match jLookup kvs "values" with
  | some (.obj vs) =>
    if nodupKeys (vs.map (·.1)) && triggerFree (vs.map (·.1)) then
      vs.mapM fun kv => (readVal kv.2).map fun v => (kv.1, v)
    else none
  | _ => none

def readPrev (kvs : List (String × JVal)) : Option (Option Date) :=
  if (kvs.map (·.1)).contains "prev_evaluation_date" then
    (readDate kvs "prev_evaluation_date").map some
  else some none

/-- one cell object: three ISO dates, optionally `prev_evaluation_date` (then the cell is
incremental), and `values`; no other keys; the dates obey the constructor's rules -/
def readCell : JVal → Option JCell
  | .obj kvs =>
    if nodupKeys (kvs.map (·.1)) && (kvs.map (·.1)).all cellKeys.contains then
      (readDate kvs "period_start").bind fun ps =>
      (readDate kvs "period_end").bind fun pe =>
      (readDate kvs "evaluation_date").bind fun ev =>
      (readPrev kvs).bind fun prev =>
      (readValues kvs).bind fun values =>
      let c := mkObservation ((kvs.map (·.1)).contains "prev_evaluation_date") ps pe ev prev values
      if c.datesOk then some c else none
    else none
  | _ => none

def readStrAttr (kvs : List (String × JVal)) (k : String) (dflt : Option String) :
    Option (Option String) :=
  match jLookup kvs k with
  | none => some dflt
  | some .null => some none
  | some (.str s) => some (some s)
  | some _ => none

def readDetails (kvs : List (String × JVal)) (k : String) : Option (Dict Scalar) :=
  match jLookup kvs k with
  | none => some []
  | some (.obj ds) =>
    if nodupKeys (ds.map (·.1)) && triggerFree (ds.map (·.1)) then
      ds.mapM fun kv => (readScalar kv.2).map fun s => (kv.1, s)
    else none
  | some _ => none

def readLimit (kvs : List (String × JVal)) : Option Scalar :=
  match jLookup kvs "per_occurrence_limit" with
  | none => some .null
  | some .null => some .null
  | some (.int i) => some (.int i)
  | some (.flt q) => some (.flt q)
  | some _ => none

def readCells (kvs : List (String × JVal)) : Option (List JCell) :=
  match jLookup kvs "cells" with
  | some (.arr cs) => cs.mapM readCell
  | _ => none

/-- one slice object: each metadata attribute at most once (absent = default), and `cells` -/
def readSlice : JVal → Option (List JCell)
  | .obj kvs =>
    if nodupKeys (kvs.map (·.1)) && (kvs.map (·.1)).all sliceKeys.contains then
      (readStrAttr kvs "risk_basis" (some "Accident")).bind fun rb =>
      (readStrAttr kvs "country" none).bind fun co =>
      (readStrAttr kvs "currency" none).bind fun cu =>
      (readStrAttr kvs "reinsurance_basis" none).bind fun re =>
      (readStrAttr kvs "loss_definition" none).bind fun ld =>
      (readLimit kvs).bind fun lim =>
      (readDetails kvs "details").bind fun det =>
      (readDetails kvs "loss_details").bind fun ldet =>
      (readCells kvs).map fun l => l.map fun c =>
        { c with md := { riskBasis := rb, country := co, currency := cu, reinsuranceBasis := re,
                         lossDefinition := ld, limit := lim, details := det, lossDetails := ldet } }
    else none
  | _ => none

/-- the whole document: exactly `{"slices": [slice, …]}`; the cells in document order -/
def plainRead : JVal → Option (List JCell)
  | .obj [("slices", .arr ss)] => (ss.mapM readSlice).map List.flatten
  | _ => none

/-! ### the strict reading: ISO 8601 calendar dates `YYYY-MM-DD` and nothing else -/

def isoDigit? (c : Char) : Option Nat :=
  if 48 ≤ c.toNat ∧ c.toNat ≤ 57 then some (c.toNat - 48) else none

/-- ISO 8601 extended calendar date: exactly ten characters `YYYY-MM-DD`, ASCII digits, hyphens at
positions 4 and 7, year ≥ 1, a real day of a real month. No padding variants, no sign, no spaces. -/
def strictIso (s : String) : Option Date :=
  match s.toList with
  | [y1, y2, y3, y4, s1, m1, m2, s2, d1, d2] =>
    if s1 == '-' && s2 == '-' then
      match isoDigit? y1, isoDigit? y2, isoDigit? y3, isoDigit? y4,
            isoDigit? m1, isoDigit? m2, isoDigit? d1, isoDigit? d2 with
      | some a, some b, some c, some d, some e, some f, some g, some h =>
        let dt : Date := ⟨((1000 * a + 100 * b + 10 * c + d : Nat) : Int), 10 * e + f, 10 * g + h⟩
        if 1 ≤ dt.y && dt.valid then some dt else none
      | _, _, _, _, _, _, _, _ => none
    else none
  | _ => none

def readDateS (kvs : List (String × JVal)) (k : String) : Option Date :=
  match jLookup kvs k with
  | some (.str s) => strictIso s
  | _ => none

def readPrevS (kvs : List (String × JVal)) : Option (Option Date) :=
  if (kvs.map (·.1)).contains "prev_evaluation_date" then
    (readDateS kvs "prev_evaluation_date").map some
  else some none

/-- `readCell` with strict ISO dates -/
def readCellS : JVal → Option JCell
  | .obj kvs =>
    if nodupKeys (kvs.map (·.1)) && (kvs.map (·.1)).all cellKeys.contains then
      (readDateS kvs "period_start").bind fun ps =>
      (readDateS kvs "period_end").bind fun pe =>
      (readDateS kvs "evaluation_date").bind fun ev =>
      (readPrevS kvs).bind fun prev =>
      (readValues kvs).bind fun values =>
      let c := mkObservation ((kvs.map (·.1)).contains "prev_evaluation_date") ps pe ev prev values
      if c.datesOk then some c else none
    else none
  | _ => none

def readCellsS (kvs : List (String × JVal)) : Option (List JCell) :=
  match jLookup kvs "cells" with
  | some (.arr cs) => cs.mapM readCellS
  | _ => none

/-- `readSlice` with strict ISO dates in its cells -/
def readSliceS : JVal → Option (List JCell)
  | .obj kvs =>
    if nodupKeys (kvs.map (·.1)) && (kvs.map (·.1)).all sliceKeys.contains then
      (readStrAttr kvs "risk_basis" (some "Accident")).bind fun rb =>
      (readStrAttr kvs "country" none).bind fun co =>
      (readStrAttr kvs "currency" none).bind fun cu =>
      (readStrAttr kvs "reinsurance_basis" none).bind fun re =>
      (readStrAttr kvs "loss_definition" none).bind fun ld =>
      (readLimit kvs).bind fun lim =>
      (readDetails kvs "details").bind fun det =>
      (readDetails kvs "loss_details").bind fun ldet =>
      (readCellsS kvs).map fun l => l.map fun c =>
        { c with md := { riskBasis := rb, country := co, currency := cu, reinsuranceBasis := re,
                         lossDefinition := ld, limit := lim, details := det, lossDetails := ldet } }
    else none
  | _ => none

/-- the whole document, every date strictly `YYYY-MM-DD` -/
def plainReadStrict : JVal → Option (List JCell)
  | .obj [("slices", .arr ss)] => (ss.mapM readSliceS).map List.flatten
  | _ => none

/-! ### comparison up to the insertion order of dict keys (not part of the property) -/

def sortByKey {α} (d : Dict α) : Dict α := d.mergeSort fun a b => compare a.1 b.1 != .gt

def JCell.canon (c : JCell) : JCell :=
  { c with values := sortByKey c.values,
           md := { c.md with details := sortByKey c.md.details,
                             lossDetails := sortByKey c.md.lossDetails } }

def sameCells (a b : List JCell) : Bool := a.map JCell.canon == b.map JCell.canon

/-- the text's AST, read plainly with STRICT ISO dates, is the original triangle (as typed cells,
same order) -/
def textSpec (t : List JCell) (j : JVal) : Bool :=
  match plainReadStrict j with
  | some cells => sameCells cells (asTyped t)
  | none => false

/-- every metadata attribute of a slice is written once per slice, not per cell: the number of
slice objects equals the number of slices -/
def slicesOnce (t : List JCell) (j : JVal) : Bool :=
  match j with
  | .obj [("slices", .arr ss)] => ss.length == (groupBy (fun c : JCell => c.md.toMetadata) t).length
  | _ => false

/-- the loaded triangle is the original one -/
def loadSpec (t out : List JCell) : Bool := sameCells out (asTyped t)

end Bermuda.Spec.C07
