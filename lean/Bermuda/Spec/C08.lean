/-
Executable statement of property C08 on (source triangle, arguments, aggregate output). Run by the driver on
the IMPLEMENTATION's output. The statements are declarative (closed-form grid arithmetic), not the walk of
the code:

  onGrid / isWindow   grid points `origin + k·r`, windows `[origin + 1d + k·r, origin + (k+1)·r]` — by month
                      index for month units with a month-end origin, by ordinal for day units ("aligned" regime)
  evalOk              evaluation aggregation = the source cells whose evaluation date is on the grid, unchanged
  windowsOk           every output period is a window; output cells are CumulativeCells
  cover               every source cell lies in exactly one output cell of its slice and evaluation date
  cellSums            each output cell has a source cell and its additive fields are the sums over its sources
  conserves           per slice, evaluation date and field: total in = total out
  expectStraddle      some source period crosses the end of the window containing its start (⇒ TriangleError)
-/
import Bermuda.Model.Aggregate
import Bermuda.Spec.C09
namespace Bermuda.Spec.C08
open Bermuda Bermuda.Spec.C09

/-- the regime covered by `window_spec`: day units, or month units with a month-end origin -/
def aligned (u : ResUnit) (origin : Date) : Bool :=
  match u with
  | .day => true
  | .month => origin.isMonthEnd

/-- `d = origin + k·q` for some integer k -/
def onGrid (q : Int) (u : ResUnit) (origin d : Date) : Bool :=
  match u with
  | .day => (d.ordinal - origin.ordinal) % q == 0
  | .month => d.isMonthEnd && (monthToId d - monthToId origin) % q == 0

/-- end of the window containing `ps` -/
def windowEnd (q : Int) (u : ResUnit) (origin ps : Date) : Date :=
  match u with
  | .day =>
    let k := (ps.ordinal - origin.ordinal - 1) / q
    Date.ofOrdinal (origin.ordinal + (k + 1) * q)
  | .month =>
    let k := (monthToId ps - monthToId origin - 1) / q
    idToMonth (monthToId origin + (k + 1) * q) false

/-- `[ps, pe]` is one of the consecutive windows of length `q` that start the day after a grid point -/
def isWindow (q : Int) (u : ResUnit) (origin ps pe : Date) : Bool :=
  onGrid q u origin ps.pred && onGrid q u origin pe &&
  (match u with
   | .day => pe.ordinal - ps.ordinal + 1 == q
   | .month => monthToId pe - monthToId ps + 1 == q)

def evalOk (q : Int) (u : ResUnit) (origin : Date) (t out : List Cell) : Bool :=
  out == t.filter fun c => onGrid q u origin c.ev

def windowsOk (q : Int) (u : ResUnit) (origin : Date) (out : List Cell) : Bool :=
  out.all fun o => isWindow q u origin o.ps o.pe && o.kind == .cumulative && o.prev == none

/-- source cell `c` belongs to output cell `o` -/
def inWindow (o c : Cell) : Bool := o.md == c.md && o.ev == c.ev && o.ps ≤ c.ps && c.pe ≤ o.pe

def sources (src : List Cell) (o : Cell) : List Cell := src.filter (inWindow o)

def cover (src out : List Cell) : Bool :=
  nodupB (out.map fun o => (o.md, o.ps, o.pe, o.ev)) &&
  src.all fun c => (out.filter fun o => inWindow o c).length == 1

def cellSums (fields : List String) (src out : List Cell) : Bool :=
  out.all fun o =>
    let g := sources src o
    !g.isEmpty &&
    fields.all fun f => (probeIdx (o :: g) f).all fun i =>
      !allInRange g f i || ((o.getV f).inRange i && (o.getV f).at i == sumAt g f i)

def keysOk (src out : List Cell) : Bool :=
  out.all fun o =>
    let g := sources src o
    nodupB o.values.keys &&
    o.values.keys.all (fun k => g.any fun c => c.values.contains k) &&
    g.all (fun c => c.values.keys.all fun k => o.values.contains k)

/-- per slice and evaluation date every listed field total is conserved -/
def conserves (fields : List String) (src out : List Cell) : Bool :=
  let pairs := smDedup ((src ++ out).map fun c => (c.md, c.ev))
  pairs.all fun p =>
    let s := src.filter fun c => (c.md, c.ev) == p
    let o := out.filter fun c => (c.md, c.ev) == p
    fields.all fun f => (probeIdx (s ++ o) f).all fun i =>
      !allInRange s f i || (allInRange o f i && sumAt o f i == sumAt s f i)

def expectStraddle (q : Int) (u : ResUnit) (origin : Date) (src : List Cell) : Bool :=
  src.any fun c => windowEnd q u origin c.ps < c.pe

/-- **all clauses at once** (the conjunction the driver reports clause by clause): windows from the requested
origin, exact cover, per-cell sums over the cells inside the window, field names, conservation per slice and
evaluation date. `src` is the source triangle after the evaluation filter. -/
def holds (q : Int) (u : ResUnit) (origin : Date) (fields : List String) (src out : List Cell) : Bool :=
  windowsOk q u origin out && cover src out && cellSums fields src out && keysOk src out &&
  conserves fields src out

end Bermuda.Spec.C08
