/-
Executable statement of property C09 on an (input triangle, summarize output) pair. Run by the driver on
the IMPLEMENTATION's output; `Properties/C09.lean` proves the model's output satisfies the same statements.

  conserves    every additive field total is conserved (at every sample index)
  cellSums     each output cell's additive field = Σ over the input cells at its coordinate
  coordsOk     exactly one output cell per distinct input coordinate, of the right class
  keysOk       an output cell carries exactly the union of the field names of its input cells
  metaOk       the output metadata keeps exactly what every input cell shares
  nonLossOk    (summarize_premium = False) a premium/exposure field is ONE existing cell's value
  ratioOk      ratio fields are the reported_loss-weighted averages (relative tolerance, floats)
-/
import Bermuda.Model.Summarize
namespace Bermuda.Spec.C09
open Bermuda

/-- the additive fields of the property: losses, premiums, exposures, claim counts,
`*_loss_developed`, `*_loss_prior` -/
def additiveFields : List String :=
  ["paid_loss", "reported_loss", "incurred_loss",
   "earned_premium", "used_earned_premium", "written_premium",
   "earned_exposure", "written_exposure",
   "reported_claims", "open_claims", "closed_claims", "closed_with_pay_claims",
   "reported_count", "open_count", "closed_count", "closed_with_pay_count",
   "incurred_loss_developed", "paid_loss_developed", "reported_loss_developed",
   "incurred_loss_prior", "paid_loss_prior", "reported_loss_prior"]

/-- premium / exposure fields (the additive members of NON_LOSS_METRICS) -/
def premiumFields : List String :=
  ["earned_premium", "used_earned_premium", "written_premium", "earned_exposure", "written_exposure"]

/-- additive fields that are still summed when `summarize_premium = False` -/
def lossFields : List String := additiveFields.filter fun f => !premiumFields.contains f

/-- ratio fields with the documented weight `reported_loss` -/
def ratioFields : List String := ["implied_atu", "bf_weight", "geometric_weight"]

def sumAt (cs : List Cell) (f : String) (i : Nat) : Rat := (cs.map fun c => (c.getV f).at i).sum

def allInRange (cs : List Cell) (f : String) (i : Nat) : Bool := cs.all fun c => (c.getV f).inRange i

def Val.len : Val → Nat
  | .arr _ _ d => d.length
  | _ => 1

/-- sample indices worth probing: `0 … max length - 1` -/
def probeIdx (cs : List Cell) (f : String) : List Nat :=
  List.range ((cs.map fun c => Val.len (c.getV f)).foldl max 1)

/-- Σ out = Σ in for every listed field at every index addressing all input samples -/
def conserves (fields : List String) (t out : List Cell) : Bool :=
  fields.all fun f => (probeIdx (t ++ out) f).all fun i =>
    !allInRange t f i || (allInRange out f i && sumAt out f i == sumAt t f i)

def groupOf (incr : Bool) (t : List Cell) (o : Cell) : List Cell :=
  t.filter fun c => coordKey incr c == coordKey incr o

def cellSums (fields : List String) (t out : List Cell) : Bool :=
  let incr := smIsIncremental t
  out.all fun o =>
    let g := groupOf incr t o
    fields.all fun f => (probeIdx (o :: g) f).all fun i =>
      !allInRange g f i || ((o.getV f).inRange i && (o.getV f).at i == sumAt g f i)

def nodupB {α} [BEq α] : List α → Bool
  | [] => true
  | a :: l => !l.contains a && nodupB l

def coordsOk (t out : List Cell) : Bool :=
  let incr := smIsIncremental t
  let kin := t.map (coordKey incr)
  let kout := out.map (coordKey incr)
  nodupB kout && kin.all (fun k => kout.contains k) && kout.all (fun k => kin.contains k) &&
  out.all (fun o => o.kind == (if incr then CellKind.incremental else CellKind.cumulative))

def keysOk (t out : List Cell) : Bool :=
  let incr := smIsIncremental t
  out.all fun o =>
    let g := groupOf incr t o
    nodupB o.values.keys &&
    o.values.keys.all (fun k => g.any fun c => c.values.contains k) &&
    g.all (fun c => c.values.keys.all fun k => o.values.contains k)

/-- `m = some x ↔ every cell has x` -/
def attrShared {α} [BEq α] (t : List Cell) (f : Metadata → Option α) (m : Option α) : Bool :=
  match m with
  | some x => t.all fun c => f c.md == some x
  | none => !(t.filterMap fun c => f c.md).any fun x => t.all fun c => f c.md == some x

def entryShared (ds : List (Dict MVal)) (kv : String × MVal) : Bool :=
  kv.2 != MVal.none && ds.all fun d => d.get? kv.1 == some kv.2

/-- kept entries are shared and not None; every shared non-None entry is kept -/
def detailsShared (ds : List (Dict MVal)) (m : Dict MVal) : Bool :=
  nodupB m.keys && m.all (entryShared ds) &&
  ds.all fun d => d.all fun kv => !entryShared ds kv || m.get? kv.1 == some kv.2

def mdShared (t : List Cell) (m : Metadata) : Bool :=
  t.all (fun c => c.md.riskBasis == m.riskBasis && c.md.currency == m.currency) &&
  attrShared t (·.country) m.country && attrShared t (·.limit) m.limit &&
  attrShared t (·.lossDefinition) m.lossDefinition &&
  attrShared t (·.reinsuranceBasis) m.reinsuranceBasis &&
  detailsShared (t.map (·.md.details)) m.details &&
  detailsShared (t.map (·.md.lossDetails)) m.lossDetails

def metaOk (t out : List Cell) : Bool := out.all fun o => mdShared t o.md

/-- with `summarize_premium = False`: a non-loss field present in the group equals ONE existing cell's
entry (`None` standing for a cell without it) -/
def nonLossOk (nonLoss : List String) (t out : List Cell) : Bool :=
  let incr := smIsIncremental t
  out.all fun o =>
    let g := groupOf incr t o
    nonLoss.all fun f =>
      !(g.any fun c => c.values.contains f) ||
      (match o.values.get? f with
       | some v => g.any fun c => c.getV f == v
       | none => false)

def absR (q : Rat) : Rat := if q < 0 then -q else q

/-- `|a - b| ≤ tol · max(|a|, |b|)` -/
def closeTo (tol a b : Rat) : Bool :=
  absR (a - b) ≤ tol * (if absR a < absR b then absR b else absR a)

/-- ratio field `f` with weight key `w`: `out · Σ weights = Σ value · weight` within the tolerance, where the
weights in the denominator are those of ALL cells of the group that have one. Checked where every value
has a weight and the denominator is non-zero (elsewhere the implementation raises or is outside the model). -/
def ratioOk (tol : Rat) (w : String) (fields : List String) (t out : List Cell) : Bool :=
  let incr := smIsIncremental t
  out.all fun o =>
    let g := groupOf incr t o
    fields.all fun f =>
      !(g.any fun c => c.values.contains f) ||
      !(g.all fun c => (c.getV f).isNone || !(c.getV w).isNone) ||
      (probeIdx (o :: g) f).all fun i =>
        !(allInRange g f i && allInRange g w i && (o.getV f).inRange i) ||
        (let num := (g.map fun c => (c.getV f).at i * (c.getV w).at i).sum
         let den := sumAt g w i
         den == 0 || closeTo tol ((o.getV f).at i * den) num)

/-! ## the PLAIN readings of three clauses (audit follow-up)

None of the three predicates below is evaluated by the driver: each is FALSE on an output of the model (and of
the implementation) — see the witness theorems `premium_first_cell_lacks_field_none`,
`ratio_denominator_counts_valueless_weights`, `shared_none_detail_dropped` of `Properties/C09.lean`, which
state the accepting predicate above and the plain one below side by side. They are the exact strengthenings
that would turn the three quirks into reported deviations. -/

/-- PLAIN reading of "take one existing cell's value": some cell of the group HOLDS the field with that
value (`nonLossOk` lets a cell WITHOUT the field stand for the value `None`) -/
def nonLossOkStrict (nonLoss : List String) (t out : List Cell) : Bool :=
  let incr := smIsIncremental t
  out.all fun o =>
    let g := groupOf incr t o
    nonLoss.all fun f =>
      !(g.any fun c => c.values.contains f) ||
      (match o.values.get? f with
       | some v => g.any fun c => c.values.get? f == some v
       | none => false)

/-- PLAIN reading of "weighted average": numerator AND denominator run over the cells of the group that have a
value (`ratioOk` takes the weights of ALL cells into the denominator) -/
def ratioOkPlain (tol : Rat) (w : String) (fields : List String) (t out : List Cell) : Bool :=
  let incr := smIsIncremental t
  out.all fun o =>
    let g := groupOf incr t o
    fields.all fun f =>
      let gv := g.filter fun c => !(c.getV f).isNone
      gv.isEmpty ||
      !(gv.all fun c => !(c.getV w).isNone) ||
      (probeIdx (o :: g) f).all fun i =>
        !(allInRange g f i && allInRange g w i && (o.getV f).inRange i) ||
        (let num := (gv.map fun c => (c.getV f).at i * (c.getV w).at i).sum
         let den := sumAt gv w i
         den == 0 || closeTo tol ((o.getV f).at i * den) num)

/-- PLAIN reading of "keeps exactly those detail entries that every input cell shares": no exception for an
entry whose shared value is `None` (`entryShared` demands `kv.2 != none`) -/
def entrySharedPlain (ds : List (Dict MVal)) (kv : String × MVal) : Bool :=
  ds.all fun d => d.get? kv.1 == some kv.2

def detailsSharedPlain (ds : List (Dict MVal)) (m : Dict MVal) : Bool :=
  nodupB m.keys && m.all (entrySharedPlain ds) &&
  ds.all fun d => d.all fun kv => !entrySharedPlain ds kv || m.get? kv.1 == some kv.2

end Bermuda.Spec.C09
