/-
Executable statement of property C10 on (input, output) pairs — evaluated by the driver on the
IMPLEMENTATION's outputs. The predicates are written from the relational definitions (set
expressions on coordinates, field-wise precedence), not from the model's algorithms; the only
shared vocabulary is the key (`joinKey`, `coalKey`), the `on` reduction of metadata and
`isIncremental`.

Hypothesis of `joinSpec` / `mergeSpec` / `addStaticsSpec`: keys are distinct inside each operand.
`joinSpecLast` / `mergeSpecLast` / `coalesceSpec` need NO hypothesis: with duplicate keys inside an
operand (the normal case of `on` against a more granular triangle: slices that differ only outside
`on` collapse) the cell at a coordinate is the LAST one with that key in the operand as join.py
indexes it, i.e. after `_select_metadata` re-built it with `Triangle(...)` (`sortedOn`: stable sort
by `Cell.__lt__`, the canonical order of C01 — shared vocabulary with the model, like the keys).
Order of the `pairs` list is irrelevant to `joinSpec` / `joinSpecLast` (Python: set-iteration order).
-/
import Bermuda.Model.Join
namespace Bermuda.Spec

/-- metadata reduced to `on` (when `on` is a non-empty list), nothing else changed, order kept -/
def onCells (on : Option (List String)) (t : List Cell) : List Cell :=
  match on with
  | some (x :: xs) => t.map (·.selectOn (x :: xs))
  | _ => t

/-- the relational definition of each join type as a predicate on coordinates -/
def setExpr (ty : JoinType) (A B : List Coord) (k : Coord) : Bool :=
  match ty with
  | .full => A.contains k || B.contains k
  | .inner => A.contains k && B.contains k
  | .left => A.contains k
  | .right => B.contains k
  | .leftAnti => A.contains k && !B.contains k
  | .rightAnti => B.contains k && !A.contains k

/-- coordinate of a pair: of its left cell, else of its right cell -/
def pairKey? (inc : Bool) : CellPair → Option Coord
  | (some c, _) => some (joinKey inc c)
  | (none, some c) => some (joinKey inc c)
  | (none, none) => none

/-- the cell of `t` at coordinate `k` (unique under the distinct-keys hypothesis) -/
def cellAt (inc : Bool) (t : List Cell) (k : Coord) : Option Cell :=
  t.find? (fun c => joinKey inc c == k)

def nodupB {α} [BEq α] : List α → Bool
  | [] => true
  | a :: l => !l.contains a && nodupB l

/-- hypothesis of `joinSpec` / `mergeSpec`: inside each operand (metadata reduced to `on`) keys are
distinct — what building a Python dict keyed by coordinate assumes -/
def joinHyp (on : Option (List String)) (a b : List Cell) : Bool :=
  let inc := isIncremental a
  nodupB ((onCells on a).map (joinKey inc)) && nodupB ((onCells on b).map (joinKey inc))

/-- **join**: `pairs` has exactly one pair per coordinate of the relational set expression, and
the pair at coordinate `k` is (the cell of the left operand at `k`, the cell of the right operand
at `k`) — the original cells with metadata reduced to `on`. -/
def joinSpec (ty : JoinType) (on : Option (List String)) (a b : List Cell)
    (pairs : List CellPair) : Bool :=
  let a' := onCells on a
  let b' := onCells on b
  let inc := isIncremental a
  let A := a'.map (joinKey inc)
  let B := b'.map (joinKey inc)
  let ks := pairs.map (pairKey? inc)
  -- one pair per coordinate
  nodupB ks &&
  -- returned coordinates ⊆ set expression, and every pair is the pair of original cells
  pairs.all (fun p => match pairKey? inc p with
    | some k => setExpr ty A B k && p.1 == cellAt inc a' k && p.2 == cellAt inc b' k
    | none => false) &&
  -- set expression ⊆ returned coordinates
  (A ++ B).all (fun k => !setExpr ty A B k || ks.contains (some k))

/-- the operand as join.py indexes it: with a non-empty `on` the reduced cells went through
`Triangle(...)` (stable sort by `Cell.__lt__`); otherwise the operand itself -/
def sortedOn (on : Option (List String)) (t : List Cell) : List Cell :=
  match on with
  | some (x :: xs) => (t.map (·.selectOn (x :: xs))).mergeSort Cell.le
  | _ => t

/-- the LAST cell of `t` at coordinate `k` (a dict comprehension keeps the last assignment) -/
def cellAtLast (inc : Bool) (t : List Cell) (k : Coord) : Option Cell :=
  (t.filter (fun c => joinKey inc c == k)).getLast?

/-- **join, no hypothesis**: `pairs` has exactly one pair per coordinate of the relational set
expression, and the pair at coordinate `k` is (the last cell of the left operand at `k`, the last
cell of the right operand at `k`) in the order of `sortedOn` — under distinct keys this is
`joinSpec`; with collapsed slices it says WHICH of the collapsed cells is carried. -/
def joinSpecLast (ty : JoinType) (on : Option (List String)) (a b : List Cell)
    (pairs : List CellPair) : Bool :=
  let a' := sortedOn on a
  let b' := sortedOn on b
  let inc := isIncremental a
  let A := (onCells on a).map (joinKey inc)
  let B := (onCells on b).map (joinKey inc)
  let ks := pairs.map (pairKey? inc)
  nodupB ks &&
  pairs.all (fun p => match pairKey? inc p with
    | some k => setExpr ty A B k && p.1 == cellAtLast inc a' k && p.2 == cellAtLast inc b' k
    | none => false) &&
  (A ++ B).all (fun k => !setExpr ty A B k || ks.contains (some k))

/-- `out` has the same non-value attributes as `c` -/
def sameFrame (c out : Cell) : Bool :=
  c.kind == out.kind && c.ps == out.ps && c.pe == out.pe && c.ev == out.ev && c.prev == out.prev &&
  c.md == out.md

/-- `out` = right-biased union of the dicts `l` and `r`, as a finite map (dict order free) -/
def isRightUnion (l r out : Dict Val) : Bool :=
  nodupB out.keys &&
  out.all (fun kv => match r.get? kv.1 with
    | some v => kv.2 == v
    | none => l.get? kv.1 == some kv.2) &&
  (l.keys ++ r.keys).all (fun k => out.keys.contains k)

/-- **merge**: the coordinates of `out` are those of the join type's set expression, one cell per
coordinate; a coordinate present on both sides carries the left cell with the right-biased union
of the two value dicts; a coordinate present on one side carries that side's cell unchanged. -/
def mergeSpec (ty : JoinType) (on : Option (List String)) (a b out : List Cell) : Bool :=
  let a' := onCells on a
  let b' := onCells on b
  let inc := isIncremental a
  let A := a'.map (joinKey inc)
  let B := b'.map (joinKey inc)
  let ks := out.map (joinKey inc)
  nodupB ks &&
  out.all (fun c =>
    let k := joinKey inc c
    setExpr ty A B k &&
    match cellAt inc a' k, cellAt inc b' k with
    | some x, some y => sameFrame x c && isRightUnion x.values y.values c.values
    | some x, none => c == x
    | none, some y => c == y
    | none, none => false) &&
  (A ++ B).all (fun k => !setExpr ty A B k || ks.contains k)

/-- **merge, no hypothesis**: as `mergeSpec`, the cell of an operand at a coordinate being the LAST
one with that key in `sortedOn` order. -/
def mergeSpecLast (ty : JoinType) (on : Option (List String)) (a b out : List Cell) : Bool :=
  let a' := sortedOn on a
  let b' := sortedOn on b
  let inc := isIncremental a
  let A := (onCells on a).map (joinKey inc)
  let B := (onCells on b).map (joinKey inc)
  let ks := out.map (joinKey inc)
  nodupB ks &&
  out.all (fun c =>
    let k := joinKey inc c
    setExpr ty A B k &&
    match cellAtLast inc a' k, cellAtLast inc b' k with
    | some x, some y => sameFrame x c && isRightUnion x.values y.values c.values
    | some x, none => c == x
    | none, some y => c == y
    | none, none => false) &&
  (A ++ B).all (fun k => !setExpr ty A B k || ks.contains k)

/-- inside each triangle coordinates are distinct — NOT a hypothesis of `coalesceSpec` (which holds
of the model unconditionally, `coalesceSpec_of_coalesce`); reported by the driver as information -/
def coalesceHyp (ts : List (List Cell)) : Bool := ts.all (fun t => nodupB (t.map coalKey))

/-- **coalesce**: one cell per coordinate occurring in any triangle, namely the (unmodified)
first cell at that coordinate in triangle-list order. -/
def coalesceSpec (ts : List (List Cell)) (out : List Cell) : Bool :=
  let all := ts.flatten
  nodupB (out.map coalKey) &&
  out.all (fun c => all.find? (fun d => coalKey d == coalKey c) == some c) &&
  all.all (fun d => (out.map coalKey).contains (coalKey d))

/-- the latest source cell of the slice and period of `c`: maximal evaluation date -/
def latestSource? (source : List Cell) (c : Cell) : Option Cell :=
  (source.filter (fun s => s.md == c.md && s.ps == c.ps && s.pe == c.pe)).foldl
    (fun best s => match best with
      | none => some s
      | some b => if Date.cmp b.ev s.ev == .lt then some s else some b) none

/-- hypothesis of `addStaticsSpec` / `periodMergeSpec`: the left operand is a sorted triangle with
distinct coordinates (so the result keeps its order) and the source has one cell per
(metadata, period, evaluation date) (so "the latest" is unique) -/
def leftHyp (t : List Cell) : Bool := nodupB (t.map Cell.coord)
def addStaticsHyp (t source : List Cell) : Bool := leftHyp t && nodupB (source.map coalKey)

/-- field-wise: `out` = `base` overwritten by the entries of `extra` (a finite map) -/
def isOverwrite (base extra out : Dict Val) : Bool := isRightUnion base extra out

/-- **add_statics**: same number of cells, same coordinates position by position (both sides are
sorted triangles); in every cell only the requested fields may differ: a requested field present in
the latest source cell of the same slice and period takes the source's value, everything else is
the cell's own. -/
def addStaticsSpec (t source : List Cell) (statics : List String) (out : List Cell) : Bool :=
  out.length == t.length &&
  (t.zip out).all (fun (c, o) =>
    sameFrame c o &&
    match latestSource? source c with
    | some s => isOverwrite c.values (s.values.filter (fun kv => statics.contains kv.1)) o.values
    | none => o == c)

/-- **period_merge**: same number of cells and coordinates; a left cell whose
(period, metadata) has exactly one right cell gets all fields of that cell (names suffixed when a
non-empty suffix is given), the right side winning conflicts; other cells are unchanged. -/
def periodMergeSpec (a b : List Cell) (suffix : Option String) (out : List Cell) : Bool :=
  out.length == a.length &&
  (a.zip out).all (fun (c, o) =>
    sameFrame c o &&
    match b.filter (fun r => r.ps == c.ps && r.pe == c.pe && r.md == c.md) with
    | [] => o == c
    | [r] =>
      let sfx := match suffix with | some s => s | none => ""
      isOverwrite c.values (r.values.map (fun kv => (kv.1 ++ sfx, kv.2))) o.values
    | _ => false)

end Bermuda.Spec
