/-
Executable statement of property C11 on (input, output) pairs: each selection operator returns
exactly the cells its documented predicate describes, unchanged and in the triangle's order.
Written independently of the model's statement-by-statement definitions (one conjunctive
predicate instead of chained filters; set-style characterisations instead of group-by folds).
Run by the driver on the IMPLEMENTATION's outputs.
-/
import Bermuda.Model.Select
import Bermuda.Spec.C01
namespace Bermuda.Spec.C11
open Bermuda

/-- `lo ≤ x ≤ hi`, an absent bound does not constrain (both ends INCLUSIVE) -/
def inDates (lo hi : Option Date) (x : Date) : Bool :=
  lo.all (fun d => d ≤ x) && hi.all (fun d => x ≤ d)

def inLags (lo hi : Option Rat) (x : Rat) : Bool :=
  lo.all (fun q => q ≤ x) && hi.all (fun q => x ≤ q)

/-- the documented predicate of `clip`: evaluation date within [min_eval, max_eval], period start
not before min_period, period end not after max_period, development lag (in unit `u`) within
[min_dev, max_dev] -/
def clipKeep (a : ClipFull) (u : LagUnit) (c : Cell) : Bool :=
  inDates a.minEval a.maxEval c.ev && inDates a.minPeriod none c.ps && inDates none a.maxPeriod c.pe &&
  inLags a.minDev a.maxDev (c.devLag u)

/-- `out` is exactly the cells of `t` satisfying `p`, unchanged and in `t`'s order -/
def exactly (t : List Cell) (p : Cell → Bool) (out : List Cell) : Bool := out == t.filter p

def clipSpec (t : List Cell) (a : ClipFull) (out : List Cell) : Bool :=
  match a.unit with
  | some u => exactly t (clipKeep a u) out
  | none => -- only reachable without lag bounds (otherwise refused unless nothing reaches them)
    exactly t (clipKeep { a with minDev := none, maxDev := none } .month) out

/-- two results partition `t`: lengths add up and together they are a rearrangement of `t` -/
def partitions (t a b : List Cell) : Bool :=
  a.length + b.length == t.length && (a ++ b).isPerm t

def nodupB {α} [BEq α] : List α → Bool
  | [] => true
  | a :: rest => !rest.contains a && nodupB rest

/-- `slices`: one entry per distinct metadata, holding exactly that metadata's cells in order;
together they partition the triangle -/
def slicesSpec (t : List Cell) (out : List (Metadata × List Cell)) : Bool :=
  nodupB (out.map (·.1)) &&
  out.all (fun p => !p.2.isEmpty && exactly t (fun c => c.md == p.1) p.2) &&
  (out.map (·.2.length)).sum == t.length

/-- the grouping key of `split`: the values of the listed detail keys (absent = `None`) -/
def detailKey (keys : List String) (c : Cell) : List MVal :=
  keys.map fun k => match c.md.details.find? (fun kv => kv.1 == k) with
    | some kv => kv.2
    | none => .none

def splitSpec (t : List Cell) (keys : List String) (out : List (List MVal × List Cell)) : Bool :=
  nodupB (out.map (·.1)) &&
  out.all (fun p => !p.2.isEmpty && exactly t (fun c => detailKey keys c == p.1) p.2) &&
  (out.map (·.2.length)).sum == t.length

/-- same slice and same experience period -/
def sameRow (a b : Cell) : Bool := a.md == b.md && a.ps == b.ps && a.pe == b.pe

/-- `right_edge`: every kept cell is a cell of `t` with the latest evaluation date of its
(slice, period) row; every row of `t` is represented exactly once; canonical order -/
def rightEdgeSpec (t out : List Cell) : Bool :=
  out.all (fun c => t.contains c && t.all (fun c' => !sameRow c c' || c'.ev ≤ c.ev)) &&
  t.all (fun c => out.countP (sameRow c) == 1) &&
  Spec.sortedCells out

/-- `select`: every cell kept (same number, same class and coordinates, in order), values
restricted to the listed keys (in the cell's own key order) -/
def selectSpec (t : List Cell) (keys : List String) (out : List Cell) : Bool :=
  out.length == t.length &&
  (t.zip out).all fun (c, o) =>
    o.kind == c.kind && o.coord == c.coord &&
    o.values == c.values.filter (fun kv => keys.contains kv.1)

/-- the filter that `t[period, evaluation, metadata]` stands for -/
def itemKeep (p e : DateIdx) (m : MetaIdx) (c : Cell) : Bool :=
  (match m with | .is md => c.md == md | .junk _ => false | _ => true) &&
  (match p with
   | .scalar d => c.ps == d
   | .slice lo hi => inDates lo hi c.ps
   | .bad => false) &&
  (match e with
   | .scalar d => c.ev == d
   | .slice lo hi => inDates lo hi c.ev
   | .bad => false)

/-- with a slice somewhere: the filtered triangle; with three scalars: its first cell -/
def getItemSpec (t : List Cell) (p e : DateIdx) (m : MetaIdx) (out : List Cell ⊕ Cell) : Bool :=
  match out with
  | .inl tri => (p.isSlice || e.isSlice || m.isSlice) && exactly t (itemKeep p e m) tri
  | .inr c => !(p.isSlice || e.isSlice || m.isSlice) && (t.filter (itemKeep p e m)).head? == some c

/-! ### `TriangleSlice` and the other index shapes -/

/-- what a period / evaluation index describes: the date itself, or the INCLUSIVE range of a slice
(an absent end unbounded) -/
def within : DateIdx → Date → Bool
  | .scalar d, x => x == d
  | .slice lo hi, x => inDates lo hi x
  | .bad, _ => false

/-- the documented predicate of `slice[period, evaluation]`: period START within the period index
and evaluation date within the evaluation index -/
def sliceKeep (p e : DateIdx) (c : Cell) : Bool := within p c.ps && within e c.ev

/-- all cells carry one metadata -/
def singleSlice : List Cell → Bool
  | [] => true
  | c :: rest => rest.all (fun c' => c'.md == c.md)

/-- `slice[period, evaluation]`: with a slice somewhere exactly the described cells, unchanged and
in order; with two dates the first such cell -/
def sliceItemSpec (t : List Cell) (p e : DateIdx) (out : List Cell ⊕ Cell) : Bool :=
  match out with
  | .inl tri => (p.isSlice || e.isSlice) && exactly t (sliceKeep p e) tri
  | .inr c => !(p.isSlice || e.isSlice) && (t.filter (sliceKeep p e)).head? == some c

/-- `TriangleSlice(cells)` accepted: the cells carry one metadata and the result is the sorted
rearrangement of exactly these cells -/
def sliceOfSpec (cells out : List Cell) : Bool :=
  singleSlice cells && out.isPerm cells && Spec.sortedCells out

/-- `TriangleSlice(cells)` must be refused: two metadata (or two cell classes) -/
def sliceOfRefused (cells : List Cell) : Bool := !singleSlice cells || !kindsConsistent cells

/-- `t[i]`: the cell at position `i`, negative positions counted from the end -/
def intItemSpec (t : List Cell) (i : Int) (out : List Cell ⊕ Cell) : Bool :=
  match out with
  | .inr c => if 0 ≤ i then t[i.toNat]? == some c else t.reverse[(-i - 1).toNat]? == some c
  | .inl _ => false

/-- `t[i]` must be refused (`IndexError`): position outside `-n … n-1` -/
def intItemRefused (t : List Cell) (i : Int) : Bool := decide (i ≥ t.length) || decide (i < -(t.length : Int))

/-- start / stop of `i:j` clamped into `0 … n` (negative values counted from the end) -/
def clampPos (n : Nat) (x : Option Int) (dflt : Nat) : Nat :=
  match x with
  | none => dflt
  | some x => if x < 0 then (x + n).toNat else min x.toNat n

/-- `t[i:j]` (no step): the cells at positions `lo ≤ k < hi`, unchanged and in order -/
def posSliceSpec (t : List Cell) (i j : Option Int) (out : List Cell ⊕ Cell) : Bool :=
  let lo := clampPos t.length i 0
  let hi := clampPos t.length j t.length
  match out with
  | .inl tri => tri.length == hi - lo && (List.range tri.length).all fun k => tri[k]? == t[lo + k]?
  | .inr _ => false

/-- `is_right_edge_ragged`: in some slice two cells that are each the latest of their period row
have different evaluation dates -/
def raggedSpec (t : List Cell) (out : Bool) : Bool :=
  let latest (c : Cell) : Bool := t.all (fun c' => !sameRow c c' || c'.ev ≤ c.ev)
  out == t.any fun a => latest a && t.any fun b => b.md == a.md && latest b && b.ev != a.ev

/-- `extract(field)`: one entry per cell, in order, the cell's value of that field (or `None`) -/
def extractSpec (t : List Cell) (field : String) (out : List Val) : Bool :=
  out.length == t.length &&
  (t.zip out).all fun (c, v) =>
    match c.values.find? (fun kv => kv.1 == field) with
    | some kv => v == kv.2
    | none => v == .none

end Bermuda.Spec.C11
