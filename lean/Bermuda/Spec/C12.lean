/-
Executable statement of property C12 on (input, output) pairs. Run by the driver on the
IMPLEMENTATION's outputs. None of these predicates mentions `addMonths`/`devLagMonths`:
they say what the calendar demands of a result, independently of how it was computed.
-/
import Bermuda.Model.DateUtils
namespace Bermuda.Spec

/-- the inverse law: `add_months(p, dev_lag_months(p, e))` is `e` -/
def inverseOk (e r : Date) : Bool := r == e

/-- adding the integer `k` to `d` gave `r`: a real date, exactly `k` calendar months later,
and a month end if `d` was one -/
def intShiftOk (d : Date) (k : Int) (r : Date) : Bool :=
  r.valid && monthToId r == monthToId d + k && (!d.isMonthEnd || r.isMonthEnd)

/-- the DAY of an integer shift, for any start date: the elapsed fraction of the start month `day / days in month`
carried to the target month and rounded like Python's `round` (half to even) — `add_months`' documented rule
("fractional part in (0, 1]", `day = round(frac * days_in_month)`); a month end (fraction 1) gives the last day -/
def scaledDay (d : Date) (M : Int) : Int :=
  roundHalfEven ((d.d : Rat) / (dim d.y d.m : Rat) * (dim (1970 + M / 12) ((M % 12).toNat + 1) : Rat))

/-- adding the integer `k` to ANY date `d` gave `r`: year and month are exactly `k` calendar months later and the day
is the scaled day (results from 1970 on; before 1970 only month ends are determined — finding D8) -/
def intShiftDayOk (d : Date) (k : Int) (r : Date) : Bool :=
  let M := monthToId d + k
  r == ⟨1970 + M / 12, (M % 12).toNat + 1, (scaledDay d M).toNat⟩

/-- a cell's month lag, added to its period end, is its evaluation date (the inverse law read through `Cell.dev_lag`):
`back = add_months(period_end, cell.dev_lag("month"))` -/
def cellLagInverseOk (ev back : Date) : Bool := back == ev

/-- on month ends the result is completely determined: the last day of month `id d + k` -/
def monthEndShiftOk (d : Date) (k : Int) (r : Date) : Bool :=
  r.valid && monthToId r == monthToId d + k && r.isMonthEnd

/-- a lag in days (or a timedelta's days) is the calendar difference -/
def dayLagOk (pe ev : Date) (lag : Int) : Bool := lag == ev.ordinal - pe.ordinal

/-- a month-end to month-end lag is the integer month difference -/
def monthEndLagOk (s e : Date) (lag : Rat) : Bool :=
  lag == ((monthToId e - monthToId s : Int) : Rat)

/-- `month_to_id` numbers months consecutively from 1970-01 = 0 -/
def monthIdOk (d : Date) (id : Int) : Bool := id == 12 * (d.y - 1970) + (d.m : Int) - 1

/-- `id_to_month(month_to_id(d), beginning)` is the first / last day of `d`'s month -/
def firstDayOk (d r : Date) : Bool := r == ⟨d.y, d.m, 1⟩
def lastDayOk (d r : Date) : Bool := r == ⟨d.y, d.m, dim d.y d.m⟩

/-- `id_to_month(id, beginning) = r`: `r` is a real date in month `id`, at its first / last day -/
def idToMonthOk (id : Int) (beginning : Bool) (r : Date) : Bool :=
  r.valid && monthToId r == id && (if beginning then r.d == 1 else r.isMonthEnd)

/-- `resolution_delta(d, (q, "day"), negative) = r` is plain day arithmetic -/
def dayDeltaOk (d : Date) (q : Int) (negative : Bool) (r : Date) : Bool :=
  r.valid && r.ordinal == d.ordinal + (if negative then -q else q)

/-- composition on month ends: `r2 = add_months(add_months(d, j), k)` (two calls) is the last day of the month `j + k`
calendar months after `d`'s — what ONE call with `j + k` must give, too -/
def composeOk (d : Date) (j k : Int) (r2 : Date) : Bool := monthEndShiftOk d (j + k) r2

/-- `back = add_months(add_months(d, k), -k)` is `d` again -/
def undoOk (d back : Date) : Bool := back == d

end Bermuda.Spec
