/-
Executable statement of property C13: the descriptive accessors are exactly the sorted distinct
values / counts present in the cells, common metadata keeps precisely what all slices share and
recombines with the differences, and the taxonomy (disjoint / semi-regular / regular) agrees with
INDEPENDENTLY written definitions (pairwise, over the cells, no sorting, no adjacent-pair trick).
Run by the driver on the IMPLEMENTATION's outputs.
-/
import Bermuda.Model.Accessors
namespace Bermuda.Spec.C13
open Bermuda

/-- strictly ascending (adjacent test) -/
def strictAsc {α} (cmp : α → α → Ordering) : List α → Bool
  | [] => true
  | [_] => true
  | a :: b :: rest => cmp a b == .lt && strictAsc cmp (b :: rest)

/-- `out` is exactly the strictly ascending list of the distinct values of `present` -/
def sortedDistinct {α} [BEq α] (cmp : α → α → Ordering) (present out : List α) : Bool :=
  strictAsc cmp out && out.all present.contains && present.all out.contains

/-- `out` maps every field (in ascending order) to the number of members of `groups` in which the
field occurs -/
def countsSpec {β} (fieldsOf : β → List String) (groups : List β) (allFields : List String)
    (out : List (String × Nat)) : Bool :=
  sortedDistinct strCmp allFields (out.map (·.1)) &&
  out.all fun (f, n) => n == groups.countP fun g => (fieldsOf g).contains f

/-! ### the taxonomy, written independently -/

/-- two closed date intervals share a day -/
def overlap (p q : Period) : Bool := p.1 ≤ q.2 && q.1 ≤ p.2

/-- no overlap between any pair of (different) experience periods -/
def disjoint (t : List Cell) : Bool :=
  t.all fun a => t.all fun b => a.period == b.period || !overlap a.period b.period

/-- duration of a period: whole-and-fractional months from the day before the start to the end,
or days from start to end -/
def duration (u : LagUnit) (c : Cell) : Rat :=
  match u with
  | .month => devLagMonths c.ps.pred c.pe
  | _ => ((c.pe.ordinal - c.ps.ordinal : Int) : Rat)

/-- every experience period has the same duration -/
def equalLengths (t : List Cell) (u : LagUnit) : Bool :=
  t.all fun a => t.all fun b => duration u a == duration u b

def semiRegular (t : List Cell) (u : LagUnit) : Bool := disjoint t && equalLengths t u

/-- constant lag spacing: whenever `x < y < z` are development lags of the triangle with no lag
strictly between `x` and `y` nor between `y` and `z`, then `y - x = z - y` -/
def constSpacing (t : List Cell) (u : LagUnit) : Bool :=
  let lags := (t.map (·.devLag u)).eraseDups
  let noneBetween (x y : Rat) : Bool := lags.all fun w => !(x < w && w < y)
  lags.all fun x => lags.all fun y => lags.all fun z =>
    !(x < y && y < z && noneBetween x y && noneBetween y z) || (y - x == z - y)

def regular (t : List Cell) (u : LagUnit) : Bool := semiRegular t u && constSpacing t u

/-! ### metadata -/

def optAttr {α} [BEq α] (get : Metadata → Option α) (metas : List Metadata) (c : Metadata) : Bool :=
  match get c with
  | some x => metas.all fun m => get m == some x       -- kept ⇒ shared by all
  | none => !(match metas with                          -- dropped ⇒ not shared (or shared `None`)
      | [] => false
      | m :: rest => (get m).isSome && rest.all fun m' => get m' == get m)

def dictShared (get : Metadata → Dict MVal) (metas : List Metadata) (c : Metadata) : Bool :=
  -- every kept item is an item of every slice, and every item shared by all slices is kept
  (get c).all (fun kv => metas.all fun m => List.elem kv (get m)) &&
  (match metas with
   | [] => true
   | m :: rest => (get m).all fun kv => !(rest.all fun m' => List.elem kv (get m')) || List.elem kv (get c))

/-- common metadata keeps precisely what all slices share -/
def commonSpec (metas : List Metadata) (c : Metadata) : Bool :=
  optAttr (·.riskBasis) metas c && optAttr (·.country) metas c && optAttr (·.currency) metas c &&
  optAttr (·.reinsuranceBasis) metas c && optAttr (·.lossDefinition) metas c &&
  optAttr (·.limit) metas c && dictShared (·.details) metas c && dictShared (·.lossDetails) metas c

/-- put a difference back onto the common part -/
def recombine (c d : Metadata) : Metadata :=
  { riskBasis := c.riskBasis.or d.riskBasis
    country := c.country.or d.country
    currency := c.currency.or d.currency
    reinsuranceBasis := c.reinsuranceBasis.or d.reinsuranceBasis
    lossDefinition := c.lossDefinition.or d.lossDefinition
    limit := c.limit.or d.limit
    details := sortItems (c.details ++ d.details)
    lossDetails := sortItems (c.lossDetails ++ d.lossDetails) }

/-- each difference recombines with the common metadata into its slice's metadata, and shares no
detail key with it -/
def recombineSpec (metas : List Metadata) (c : Metadata) (ds : List Metadata) : Bool :=
  ds.length == metas.length &&
  (metas.zip ds).all fun (m, d) =>
    recombine c d == m &&
    d.details.all (fun kv => !c.details.keys.contains kv.1) &&
    d.lossDetails.all (fun kv => !c.lossDetails.keys.contains kv.1)

/-! ### resolutions -/

/-- `r` divides every gap, and every positive month count up to the largest gap that divides
every gap divides `r` (so `r` is the largest such; `r = 0` iff all gaps are 0) -/
def resolutionSpec (gaps : List Int) (r : Int) : Bool :=
  0 ≤ r && gaps.all (fun g => g % r == 0) &&
  let top := (gaps.map Int.natAbs).foldl max 0
  (List.range (top + 1)).all fun d => d == 0 || !(gaps.all fun g => g % (d : Int) == 0) || (r % (d : Int) == 0)

/-- month boundaries of the periods: start months and months following the end months -/
def periodBoundaries (t : List Cell) : List Int :=
  (t.map fun c => monthToId c.ps) ++ (t.map fun c => monthToId c.pe + 1)

/-- gaps between consecutive distinct values (ascending) -/
def gapsOf (xs : List Int) (dedupFirst : Bool) : List Int :=
  let ys := (if dedupFirst then xs.eraseDups else xs).mergeSort (fun a b => a ≤ b)
  (ys.zip ys.tail).map fun (a, b) => b - a

def periodResolutionSpec (t : List Cell) (r : Option Int) : Bool :=
  let gaps := gapsOf (periodBoundaries t) true
  match r with
  | none => gaps.isEmpty
  | some r => !gaps.isEmpty && resolutionSpec gaps r

def evalResolutionSpec (t : List Cell) (r : Option Int) : Bool :=
  -- one month id per DISTINCT evaluation date
  let gaps := gapsOf ((t.map (·.ev)).eraseDups.map monthToId) false
  match r with
  | none => gaps.isEmpty
  | some r => !gaps.isEmpty && resolutionSpec gaps r

/-! ### experience gaps (for triangles whose periods do not overlap) -/

/-- every reported gap is a non-empty day range lying strictly between two periods, starting the
day after some period ends and ending the day before some period starts, touching no period;
gaps ascend; and every period end that is not followed immediately by a period start (other than
the last end) opens a reported gap -/
def gapsSpec (t : List Cell) (out : List Period) : Bool :=
  let ps := t.map Cell.period
  strictAsc periodCmp out &&
  out.all (fun g =>
    g.1 ≤ g.2 && ps.any (fun p => p.2.succ == g.1) && ps.any (fun q => q.1.pred == g.2) &&
    ps.all fun p => !overlap p g) &&
  ps.all fun p =>
    ps.all (fun q => q.2 ≤ p.2) ||                      -- the last end
    ps.any (fun q => q.1 == p.2.succ) ||                -- contiguous continuation
    out.any (fun g => g.1 == p.2.succ)

/-- `num_samples` (`none` = refused): the common size of all sample arrays (size > 1), 1 when
there is none, refused exactly when two sizes differ -/
def numSamplesSpec (t : List Cell) (out : Option Nat) : Bool :=
  let sizes := (t.flatMap fun c => c.values.filterMap (·.2.sampleSize)).eraseDups
  match sizes, out with
  | [], some n => n == 1
  | [k], some n => n == k
  | _ :: _ :: _, none => true
  | _, _ => false

end Bermuda.Spec.C13
