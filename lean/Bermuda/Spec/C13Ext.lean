/-
Executable statement of two more accessors of C13 (`is_slicewise_disjoint`, `slice_period_rows`), written
over the cells only (no `slices`, no `groupBy`, no sorting). Run by the driver on the IMPLEMENTATION's outputs.
-/
import Bermuda.Model.AccessorsExt
import Bermuda.Spec.C13
namespace Bermuda.Spec.C13
open Bermuda

/-- every slice is disjoint: two cells of the SAME slice have the same period or periods that share no day -/
def slicewiseDisjoint (t : List Cell) : Bool :=
  t.all fun a => t.all fun b => a.md != b.md || a.period == b.period || !overlap a.period b.period

def slicewiseDisjointSpec (t : List Cell) (out : Bool) : Bool := out == slicewiseDisjoint t

/-- weakly ascending (all pairs) -/
def ascBy {α} (le : α → α → Bool) : List α → Bool
  | [] => true
  | a :: l => l.all (le a) && ascBy le l

/-- `slice_period_rows`: the rows partition the cells by (metadata, period) — the keys are pairwise different
and ascend by (metadata, period), no row is empty, every cell of a row carries the row's key, every row
ascends by evaluation date, and all rows together are exactly the cells of the triangle -/
def rowsSpec (t : List Cell) (out : List (SliceRowKey × List Cell)) : Bool :=
  ascBy (fun a b => rowKeyCmp a b != .gt) (out.map (·.1)) &&
  ascBy (fun a b => a != b) (out.map (·.1)) &&
  out.all (fun p => !p.2.isEmpty && p.2.all (fun c => c.rowKey == p.1) &&
    ascBy (fun a b => Date.cmp a.ev b.ev != .gt) p.2) &&
  (out.flatMap (·.2)).isPerm t

end Bermuda.Spec.C13
