/-
Executable statement of property C14 on (original triangle, implementation output) pairs.

Numbers come back from the tabular forms as floats and a one-sample array as its scalar (observed
behaviour of the readers: 0-d `float64` arrays), so values are compared by numeric content:
`none`, a scalar, or a sample vector of length ≥ 2 in order.
-/
import Bermuda.Model.Frame
import Bermuda.Model.FrameRich
import Bermuda.Model.FrameStatics
namespace Bermuda.Spec.C14
open Bermuda Bermuda.Frame

/-- numeric content of a value: `none`, scalar `[q]` (also for size-1 / 0-d arrays), or samples -/
inductive NumV where
  | none | scalar (q : Rat) | samples (qs : List Rat)
deriving DecidableEq, Repr

def numV : Val → NumV
  | .none => .none
  | .int i => .scalar i
  | .flt q => .scalar q
  | .arr _ _ [q] => .scalar q
  | .arr _ _ data => .samples data

def typedKind : CellKind → CellKind
  | .cell => .cumulative | k => k

/-- canonical comparison form of a cell: class as read back, dates, metadata, fields sorted by
name with their numeric content -/
structure CanonCell where
  kind : CellKind
  ps : Date
  pe : Date
  ev : Date
  prev : Option Date
  md : Metadata
  values : List (String × NumV)
deriving DecidableEq, Repr

def canonCell (c : Cell) : CanonCell :=
  { kind := typedKind c.kind, ps := c.ps, pe := c.pe, ev := c.ev, prev := c.prev, md := c.md,
    values := (c.values.map fun kv => (kv.1, numV kv.2)).mergeSort fun a b => compare a.1 b.1 != .gt }

/-- same cells in the same order: coordinates, class, slice metadata, field set, numbers, sample order -/
def sameNumeric (a b : List Cell) : Bool := a.map canonCell == b.map canonCell

/-- `long_csv_to_triangle` has no `loss_detail_cols`: loss details come back as details -/
def mergeLossDetails (m : Metadata) : Metadata :=
  { m with details := sortItems (m.details ++ m.lossDetails), lossDetails := [] }

/-- wide CSV round trip (`from_wide_csv(field_cols, loss_detail_cols)`) -/
def wideSpec (t out : List Cell) : Bool := sameNumeric out t

/-- long CSV round trip (the merge can change where a slice sorts, hence the re-sort) -/
def longSpec (t out : List Cell) : Bool :=
  sameNumeric out ((t.map fun c => { c with md := mergeLossDetails c.md }).mergeSort Cell.le)

/-- every slice of the original is still a separate slice (metadata up to the loss-detail merge) -/
def slicesSpec (merge : Bool) (t out : List Cell) : Bool :=
  let f := fun (c : Cell) => if merge then mergeLossDetails c.md else c.md
  let a := (t.map f).eraseDups
  let b := (out.map (·.md)).eraseDups
  a.length == b.length && a.all b.contains && b.all a.contains

/-- rows per cell: the common sample length (wide), summed over its fields (long) -/
def wideRowCount (t : List Cell) : Option Nat :=
  let fs := allFields t
  (t.mapM fun c => match commonFieldLength c fs with | .ok n => some n | .error _ => none).map List.sum

def longRowCount (t : List Cell) : Option Nat :=
  (t.mapM fun c => match cleanFieldDicts c c.values.keys with
    | .ok fds => some (fds.map List.length).sum | .error _ => none).map List.sum

/-- how many numbers a value holds: a sample array its size, anything else one -/
def numCount : Val → Nat
  | .arr _ _ d => d.length
  | _ => 1

/-- the scenarios of a cell, as the property says: 1 for a cell of scalars, S for a cell of S-sample
arrays (stated on the cell alone — NOT through the writer's helpers) -/
def scenarioCount (c : Cell) : Nat := (c.values.map fun kv => numCount kv.2).foldl max 1

/-- the fields of a cell that hold a value -/
def valuedFields (c : Cell) : List String := (c.values.filter fun kv => kv.2 != Val.none).map (·.1)

/-- wide form: one row per cell and scenario -/
def wideRows (t : List Cell) : Nat := (t.map scenarioCount).sum

/-- long form: one row per cell, scenario and field -/
def longRows (t : List Cell) : Nat := (t.map fun c => scenarioCount c * (valuedFields c).length).sum

/-- the index set of the wide rows: (cell, scenario), in file order -/
def cellScenarios (t : List Cell) : List (Cell × Nat) :=
  t.flatMap fun c => (List.range (scenarioCount c)).map fun i => (c, i)

/-- the index set of the long rows: (cell, scenario, field), in file order -/
def cellScenarioFields (t : List Cell) : List (Cell × Nat × String) :=
  t.flatMap fun c => (List.range (scenarioCount c)).flatMap fun i => (valuedFields c).map fun f => (c, i, f)

/-- the row-count clause the driver evaluates on the number of rows an independent CSV reader finds
(`wideRowCount` / `longRowCount` above are the writer's own count, kept for `rows_count_wide/long`) -/
def rowCountSpec (long : Bool) (t : List Cell) (n : Nat) : Bool :=
  (if long then longRows t else wideRows t) == n

/-- array frame / matrix round trips: same cells, numbers as floats -/
def backSpec (t out : List Cell) : Bool := sameNumeric out t


/-! ## Rich matrix (`io/rich_matrix.py`) -/

/-- what comes back for a stored cell value: `None` nothing, a size-1 array its `float`, every other
number or array itself (Python kind, dtype and shape kept — the object array stores the objects) -/
def backVal : Val → Option Val
  | .none => none
  | .arr _ _ [q] => some (.flt q)
  | v => some v

/-- the values of a cell that come back: the index fields (in index order) that have a value -/
def backValues (fields : List String) (c : Cell) : Dict Val :=
  fields.filterMap fun f => ((Dict.get? c.values f).bind backVal).map fun v => (f, v)

/-- the cell that comes back for `c` (none when no field of the index has a value in it) -/
def richBack (fields : List String) (c : Cell) : Option Cell :=
  match backValues fields c with
  | [] => none
  | vs => some { c with kind := typedKind c.kind, values := vs }

/-- rich matrix round trip: exactly the cells of the original that hold a value of an index field,
in the same order, same coordinates / class / slice metadata, values as above -/
def richSpec (fields : List String) (t out : List Cell) : Bool := out == t.filterMap (richBack fields)

/-- the position of a cell on the grid of an index, by plain month arithmetic (independent of
`MatrixIndex.resolve_indices`): slice number, period number, development number -/
def gridPos (ix : MatrixIndex) (c : Cell) : Option (Nat × Nat × Nat) :=
  let dj := monthToId c.ps - ix.expOrigin
  let dk := (monthToId c.ev - monthToId c.pe) - ix.devOrigin
  let step := min ix.expResolution ix.devResolution
  match indexOf? ix.slices c.md with
  | some si =>
    if ix.expResolution > 0 && step > 0 && dj ≥ 0 && dk ≥ 0 && dj % ix.expResolution == 0 && dk % step == 0
    then some (si, (dj / ix.expResolution).toNat, (dk / step).toNat) else none
  | none => none

/-- every cell is found at its grid position: a value of an index field as a plain number /
predicted array, `MissingValue` where the cell has some index field but not this one (or `None`),
nothing where the cell has no index field at all -/
def richPlacedSpec (m : RichMatrix) (t : List Cell) : Bool :=
  let fs := List.zip (List.range m.index.fields.length) m.index.fields
  t.all fun c => match gridPos m.index c with
    | none => false
    | some (si, j, k) =>
      let covered := fs.any fun p => c.values.contains p.2
      decide (j < m.nPeriods) && decide (k < m.nDevs) &&
      fs.all fun p =>
        let want := (Dict.get? c.values p.2).bind backVal
        match m.get? (si, p.1, j, k) with
        | some (.plain v) => want == some v && (match v with | .arr _ _ _ => false | _ => true)
        | some (.predicted v) => want == some v && (match v with | .arr _ _ _ => true | _ => false)
        | some (.missing _) => want == none && covered
        | none => want == none && !covered
        | _ => false

def isValueEntry : RVal → Bool
  | .plain _ => true | .predicted _ => true | _ => false

def missingId? : RVal → Option Nat
  | .missing id => some id | _ => none

/-- … and nothing else is there: as many value entries as the cells have values of index fields, as
many missing entries as covered cells lack index fields, numbered 0 … n-1, nothing disaggregated -/
def richNothingElseSpec (m : RichMatrix) (t : List Cell) : Bool :=
  let es := (m.entries m.index.fields.length).map (·.2)
  let ids := es.filterMap missingId?
  let nVals := (t.map fun c => (backValues m.index.fields c).length).sum
  let nMiss := (t.map fun c =>
    if m.index.fields.any c.values.contains then m.index.fields.length - (backValues m.index.fields c).length else 0).sum
  (es.filter isValueEntry).length == nVals && ids.length == nMiss &&
  (List.range nMiss).all ids.contains && es.length == nVals + nMiss

/-- with periods of different lengths (the index period is their gcd) only the cells whose period is
ONE index period come back; the others are spread as disaggregated entries and dropped on the way back -/
def singleStep (expRes : Int) (c : Cell) : Bool := monthToId c.pe - monthToId c.ps + 1 == expRes

def richMixedSpec (ix : MatrixIndex) (t out : List Cell) : Bool :=
  out == (t.filter (singleStep ix.expResolution)).filterMap (richBack ix.fields)


/-! ## the rest of `io/array.py`: statics frame, right-edge frame, array frame with all arguments -/

/-- the month end that closes a period of `res` months starting in the month of `ps` -/
def periodEndOf (ps : Date) (res : Int) : Date := idToMonth (monthToId ps + res - 1) false

/-- the month end `lag` months after the month of `d` -/
def monthEndAfter (d : Date) (lag : Int) : Date := idToMonth (monthToId d + lag) false

def nonDecreasing (out : List Cell) : Bool := (out.zip out.tail).all fun p => Cell.cmp p.1 p.2 != .gt

/-- statics frame (first-of-month periods): one `CumulativeCell` per row — the period of `res` months
starting at the row's period, the common evaluation date, the row's values, the metadata —, sorted -/
def staticsSpec (rows : List (Date × Dict Val)) (res : Int) (ev : Date) (md : Metadata) (out : List Cell) : Bool :=
  out.length == rows.length && nonDecreasing out &&
  rows.all fun p => out.contains
    { kind := .cumulative, ps := p.1, pe := periodEndOf p.1 res, ev := ev, values := p.2, md := md }

/-- a row of the right-edge frame by content: period start, evaluation date, the fields that hold a
value with their numeric content (a frame column with a gap holds floats) -/
def edgeKey (r : EdgeRow) : Date × Date × List (String × NumV) :=
  (r.period, r.evaluation,
   ((r.entries.filter fun kv => kv.2 != Val.none).map fun kv => (kv.1, numV kv.2)).mergeSort
     fun a b => compare a.1 b.1 != .gt)

/-- right-edge frame of a single-slice cumulative triangle: one row per period, ascending, each the
latest evaluation of its period with that cell's values -/
def rightEdgeSpec (t : List Cell) (rows : List EdgeRow) : Bool :=
  let periods := (t.map fun c => (c.ps, c.pe)).eraseDups
  rows.length == periods.length &&
  ((rows.zip rows.tail).all fun p => Date.cmp p.1.period p.2.period != .gt) &&
  periods.all fun p =>
    let row := t.filter fun c => c.ps == p.1 && c.pe == p.2
    row.any fun c => (rows.map edgeKey).contains (edgeKey (edgeRow c)) && row.all fun d => Date.cmp d.ev c.ev != .gt

/-- the cells that are the latest evaluation of their period -/
def latestCells (t : List Cell) : List Cell :=
  t.filter fun c => t.all fun d => !(d.ps == c.ps && d.pe == c.pe) || Date.cmp d.ev c.ev != .gt

/-- right-edge frame (evaluation column dropped) read back as a statics frame: the latest cell of
every period, numbers as the frame holds them -/
def edgeBackSpec (t out : List Cell) : Bool := sameNumeric out (latestCells t)

/-- the cells an array frame stands for: per row and per column with an entry one cumulative cell;
`lags` are the columns' development lags; `fromEnd` = lags counted from the period end (else from
the period start) -/
def arrayExpected (field : String) (md : Metadata) (res : Int) (fromEnd : Bool) (lags : List Int)
    (rows : List (Date × List Val)) : List Cell :=
  rows.flatMap fun r => (lags.zip r.2).filterMap fun lv =>
    match lv.2 with
    | .none => none
    | v => some { kind := .cumulative, ps := r.1, pe := periodEndOf r.1 res,
                  ev := if fromEnd then monthEndAfter (periodEndOf r.1 res) lv.1 else monthEndAfter r.1 (lv.1 - 1),
                  values := [(field, v)], md := md }

def sameCellSet (out want : List Cell) : Bool :=
  out.length == want.length && nonDecreasing out &&
  (want.map canonCell).all (out.map canonCell).contains

def arrayFullSpec (field : String) (md : Metadata) (res : Int) (fromEnd : Bool) (lags : List Int)
    (rows : List (Date × List Val)) (out : List Cell) : Bool :=
  sameCellSet out (arrayExpected field md res fromEnd lags rows)

/-- `array_triangle_builder`: the cells of all frames, cells at the same coordinates united (a field
of a later frame wins) -/
def unite (acc : List Cell) (c : Cell) : List Cell :=
  if acc.any (·.coord == c.coord) then
    acc.map fun x => if x.coord == c.coord then { x with values := x.values.union c.values } else x
  else acc ++ [c]

def builderSpec (frames : List (String × List Int × List (Date × List Val))) (md : Metadata) (res : Int)
    (fromEnd : Bool) (out : List Cell) : Bool :=
  sameCellSet out
    ((frames.flatMap fun f => arrayExpected f.1 md res fromEnd f.2.1 f.2.2).foldl unite [])

/-- what the group-by key of a data-frame reader has to contain so that it determines a row's
coordinates and its full slice metadata (`$name` = the reader's local column list) -/
def requiredKeys : List String :=
  ["period_start", "period_end", "evaluation_date", "risk_basis", "country", "currency",
   "reinsurance_basis", "loss_definition", "per_occurrence_limit", "$detail_cols", "$loss_detail_cols"]

/-- the GENERATED key list of reader `fn` contains every required key -/
def keysCover (fn : String) : Bool :=
  match Generated.FrameKeys.groupByKeys.find? (·.1 == fn) with
  | some (_, ks) => requiredKeys.all ks.contains
  | none => false

end Bermuda.Spec.C14
