/-
Executable statement of property C14 on (original triangle, implementation output) pairs.

Numbers come back from the tabular forms as floats and a one-sample array as its scalar (observed
behaviour of the readers: 0-d `float64` arrays), so values are compared by numeric content:
`none`, a scalar, or a sample vector of length ≥ 2 in order.
-/
import Bermuda.Model.Frame
namespace Bermuda.Spec.C14
open Bermuda Bermuda.Frame

/-- numeric content of a value: `none`, scalar `[q]` (also for size-1 / 0-d arrays), or samples -/
inductive NumV where
  | none | scalar (q : Rat) | samples (qs : List Rat)
deriving DecidableEq, Repr

def numV : Val → NumV
  | .none => .none
  | .int i => .scalar i
  | .flt q => .scalar q
  | .arr _ _ [q] => .scalar q
  | .arr _ _ data => .samples data

def typedKind : CellKind → CellKind
  | .cell => .cumulative | k => k

/-- canonical comparison form of a cell: class as read back, dates, metadata, fields sorted by
name with their numeric content -/
structure CanonCell where
  kind : CellKind
  ps : Date
  pe : Date
  ev : Date
  prev : Option Date
  md : Metadata
  values : List (String × NumV)
deriving DecidableEq, Repr

def canonCell (c : Cell) : CanonCell :=
  { kind := typedKind c.kind, ps := c.ps, pe := c.pe, ev := c.ev, prev := c.prev, md := c.md,
    values := (c.values.map fun kv => (kv.1, numV kv.2)).mergeSort fun a b => compare a.1 b.1 != .gt }

/-- same cells in the same order: coordinates, class, slice metadata, field set, numbers, sample order -/
def sameNumeric (a b : List Cell) : Bool := a.map canonCell == b.map canonCell

/-- `long_csv_to_triangle` has no `loss_detail_cols`: loss details come back as details -/
def mergeLossDetails (m : Metadata) : Metadata :=
  { m with details := sortItems (m.details ++ m.lossDetails), lossDetails := [] }

/-- wide CSV round trip (`from_wide_csv(field_cols, loss_detail_cols)`) -/
def wideSpec (t out : List Cell) : Bool := sameNumeric out t

/-- long CSV round trip (the merge can change where a slice sorts, hence the re-sort) -/
def longSpec (t out : List Cell) : Bool :=
  sameNumeric out ((t.map fun c => { c with md := mergeLossDetails c.md }).mergeSort Cell.le)

/-- every slice of the original is still a separate slice (metadata up to the loss-detail merge) -/
def slicesSpec (merge : Bool) (t out : List Cell) : Bool :=
  let f := fun (c : Cell) => if merge then mergeLossDetails c.md else c.md
  let a := (t.map f).eraseDups
  let b := (out.map (·.md)).eraseDups
  a.length == b.length && a.all b.contains && b.all a.contains

/-- rows per cell: the common sample length (wide), summed over its fields (long) -/
def wideRowCount (t : List Cell) : Option Nat :=
  let fs := allFields t
  (t.mapM fun c => match commonFieldLength c fs with | .ok n => some n | .error _ => none).map List.sum

def longRowCount (t : List Cell) : Option Nat :=
  (t.mapM fun c => match cleanFieldDicts c c.values.keys with
    | .ok fds => some (fds.map List.length).sum | .error _ => none).map List.sum

def rowCountSpec (long : Bool) (t : List Cell) (n : Nat) : Bool :=
  (if long then longRowCount t else wideRowCount t) == some n

/-- array frame / matrix round trips: same cells, numbers as floats -/
def backSpec (t out : List Cell) : Bool := sameNumeric out t

/-- what the group-by key of a data-frame reader has to contain so that it determines a row's
coordinates and its full slice metadata (`$name` = the reader's local column list) -/
def requiredKeys : List String :=
  ["period_start", "period_end", "evaluation_date", "risk_basis", "country", "currency",
   "reinsurance_basis", "loss_definition", "per_occurrence_limit", "$detail_cols", "$loss_detail_cols"]

/-- the GENERATED key list of reader `fn` contains every required key -/
def keysCover (fn : String) : Bool :=
  match Generated.FrameKeys.groupByKeys.find? (·.1 == fn) with
  | some (_, ks) => requiredKeys.all ks.contains
  | none => false

end Bermuda.Spec.C14
