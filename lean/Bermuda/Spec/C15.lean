/-
Executable statement of property C15 on an (input, parameters, output) triple.
Run by the driver on the IMPLEMENTATION's outputs; proved of the model in `Properties/C15.lean`.
The predicates work directly on the observed triangle `t` (for an incremental triangle the rows and
their evaluation dates are the same as on the cumulative basis) and never call the extension
operators of `Model/Extend.lean`; they only use the date utilities (`addMonths`, `Cell.devLag`,
`evalDateResolution`, `periodResolution`, `pyRange`).

What each operator returns (read from the source): `make_right_triangle` / `make_right_diagonal`
return ONLY the added cells; `fill_forward_gaps` / `backfill` return observed + added.
-/
import Bermuda.Model.Extend
import Bermuda.Spec.C01
namespace Bermuda.Spec.C15
open Bermuda Bermuda.Extend

/-! ### coordinates -/

def sameRow (a b : Cell) : Bool := a.md == b.md && a.ps == b.ps && a.pe == b.pe

/-- occupied coordinate: metadata, period, evaluation date -/
def sameCoord (a b : Cell) : Bool := sameRow a b && a.ev == b.ev

def rowOf (t : List Cell) (c : Cell) : List Cell := t.filter (sameRow c)

def sliceOf (t : List Cell) (c : Cell) : List Cell := t.filter (·.md == c.md)

/-- earliest evaluation date of a list of cells -/
def minEval : List Cell → Option Date
  | [] => none
  | c :: rest => some (rest.foldl (fun m x => if x.ev < m then x.ev else m) c.ev)

def optLt (a b : Option Date) : Bool :=
  match a, b with
  | some x, some y => x < y
  | _, _ => false

def maxRat : List Rat → Option Rat
  | [] => none
  | q :: rest => some (rest.foldl (fun m x => if m < x then x else m) q)

def minRat : List Rat → Option Rat
  | [] => none
  | q :: rest => some (rest.foldl (fun m x => if x < m then x else m) q)

/-- no two cells of the list share a coordinate -/
def nodupCoords : List Cell → Bool
  | [] => true
  | c :: rest => !(rest.any (sameCoord c)) && nodupCoords rest

def nodupList {α} [BEq α] : List α → Bool
  | [] => true
  | a :: rest => !(rest.contains a) && nodupList rest

/-- cells of `out` sitting on a coordinate not occupied in `t` -/
def added (t out : List Cell) : List Cell := out.filter fun c => !(t.any (sameCoord c))

/-- cells of `out` sitting on a coordinate occupied in `t` -/
def kept (t out : List Cell) : List Cell := out.filter fun c => t.any (sameCoord c)

def evAt (pe : Date) (lag : Rat) (u : LagUnit) : Option Date :=
  match addDevLag pe lag u with
  | .ok d => some d
  | .error _ => none

/-! ### clauses shared by the two right-hand operators (output = added cells only) -/

def disjoint (t out : List Cell) : Bool := out.all fun c => !(t.any (sameCoord c))

def valuesEmpty (out : List Cell) : Bool := out.all fun c => c.values.isEmpty

/-- same basis as the input: incremental in, incremental out (with a previous date); otherwise
cumulative cells -/
def basisKept (t out : List Cell) : Bool :=
  if Triangle.isIncremental t then out.all fun c => c.kind == .incremental && c.prev.isSome
  else out.all fun c => c.kind == .cumulative && c.prev.isNone

/-- incremental chain: the first added cell of a row starts at the row's observed right edge, each
later one at the previous added evaluation date -/
def chainOk (t out : List Cell) : Bool :=
  if Triangle.isIncremental t then
    out.all fun c =>
      let earlier := (rowOf out c).filter fun o => o.ev < c.ev
      match maxEval earlier with
      | some e => c.prev == some e
      | none => c.prev == maxEval (rowOf t c) && c.prev.isSome
  else true

/-- every added cell belongs to an observed row (carries that slice's metadata and period) and lies
strictly after the row's latest observation -/
def afterLatest (t out : List Cell) : Bool :=
  out.all fun c => optLt (maxEval (rowOf t c)) (some c.ev)

/-! ### `make_right_triangle` -/

/-- the lag set of the slice of `c`: the requested one or the slice's own -/
def lagSetOf (t : List Cell) (lags : Option (List Rat)) (u : LagUnit) (c : Cell) : List Rat :=
  match lags with
  | some l => l
  | none => (sliceOf t c).map fun o => o.devLag u

def lastLag (t : List Cell) (u : LagUnit) (c : Cell) : Option Rat :=
  maxRat ((rowOf t c).map fun o => o.devLag u)

def gtOpt (l : Rat) (m : Option Rat) : Bool :=
  match m with
  | some x => l > x
  | none => false

/-- each added cell sits at `period_end + l` for a lag `l` of the grid exceeding the row's latest lag -/
def rightTriOnGrid (t : List Cell) (lags : Option (List Rat)) (u : LagUnit) (out : List Cell) : Bool :=
  out.all fun c =>
    (lagSetOf t lags u c).any fun l => gtOpt l (lastLag t u c) && evAt c.pe l u == some c.ev

/-- for every observed row and every grid lag beyond its latest lag the cell is supplied -/
def rightTriComplete (t : List Cell) (lags : Option (List Rat)) (u : LagUnit) (out : List Cell) : Bool :=
  t.all fun rep =>
    (lagSetOf t lags u rep).all fun l =>
      !(gtOpt l (lastLag t u rep)) ||
        (match evAt rep.pe l u with
         | some d => out.any fun c => sameRow c rep && c.ev == d
         | none => false)

def rightTriNothingMissing (t : List Cell) (lags : Option (List Rat)) (u : LagUnit) : Bool :=
  t.all fun rep => (lagSetOf t lags u rep).all fun l => !(gtOpt l (lastLag t u rep))

def rightTriSpec (t : List Cell) (lags : Option (List Rat)) (u : LagUnit) (out : List Cell) :
    List (String × Bool) :=
  [ ("disjoint", disjoint t out),
    ("afterLatest", afterLatest t out),
    ("onGrid", rightTriOnGrid t lags u out),
    ("complete", rightTriComplete t lags u out),
    ("nodup", (match lags with | some l => !(nodupList l) | none => false) || nodupCoords out),
    ("valuesEmpty", valuesEmpty out),
    ("basis", basisKept t out),
    ("chain", chainOk t out),
    ("emptyWhenComplete", !(rightTriNothingMissing t lags u) || out.isEmpty),
    ("canonical", Spec.isCanonical out) ]

/-! ### `make_right_diagonal` (include_historic = False) -/

def sliceMax (t : List Cell) (c : Cell) : Option Date := maxEval (sliceOf t c)

def rightDiagOnGrid (t : List Cell) (dates : List Date) (out : List Cell) : Bool :=
  out.all fun c => dates.contains c.ev && optLt (sliceMax t c) (some c.ev) && c.ps ≤ c.ev

def rightDiagComplete (t : List Cell) (dates : List Date) (out : List Cell) : Bool :=
  t.all fun rep => dates.all fun d =>
    !(optLt (sliceMax t rep) (some d) && rep.ps ≤ d) || out.any fun c => sameRow c rep && c.ev == d

def rightDiagNothingMissing (t : List Cell) (dates : List Date) : Bool :=
  t.all fun rep => dates.all fun d => !(optLt (sliceMax t rep) (some d) && rep.ps ≤ d)

def rightDiagSpec (t : List Cell) (dates : List Date) (out : List Cell) : List (String × Bool) :=
  [ ("disjoint", disjoint t out),
    ("afterLatest", afterLatest t out),
    ("onGrid", rightDiagOnGrid t dates out),
    ("complete", rightDiagComplete t dates out),
    ("nodup", !(nodupList dates) || nodupCoords out),
    ("valuesEmpty", valuesEmpty out),
    ("basis", basisKept t out),
    ("chain", chainOk t out),
    ("emptyWhenComplete", !(rightDiagNothingMissing t dates) || out.isEmpty),
    ("canonical", Spec.isCanonical out) ]

/-! ### `make_right_diagonal` with include_historic = True

With the flag the requested dates are NOT restricted to those after the slice's latest evaluation date: the operator
puts an empty cell at EVERY requested date not before the period start on every observed row — also on coordinates that
are occupied (`Properties/C15.lean: rightDiag_historic_recreates`). The clauses `disjoint`, `afterLatest`,
`emptyWhenComplete` and the "after the slice's latest date" part of `onGrid` / `complete` therefore do not apply; what
holds is listed here. -/

def rightDiagHistOnGrid (t : List Cell) (dates : List Date) (out : List Cell) : Bool :=
  out.all fun c => dates.contains c.ev && c.ps ≤ c.ev && !(rowOf t c).isEmpty

def rightDiagHistComplete (t : List Cell) (dates : List Date) (out : List Cell) : Bool :=
  t.all fun rep => dates.all fun d =>
    !(decide (rep.ps ≤ d)) || out.any fun c => sameRow c rep && c.ev == d

def rightDiagHistSpec (t : List Cell) (dates : List Date) (out : List Cell) : List (String × Bool) :=
  [ ("onGrid", rightDiagHistOnGrid t dates out),
    ("complete", rightDiagHistComplete t dates out),
    ("nodup", !(nodupList dates) || nodupCoords out),
    ("valuesEmpty", valuesEmpty out),
    ("basis", basisKept t out),
    ("chain", chainOk t out),
    ("canonical", Spec.isCanonical out) ]

/-! ### `fill_forward_gaps` -/

def resolveRes (t : List Cell) (res? : Option Int) : Option Int :=
  match res? with
  | some r => some r
  | none => evalDateResolution t

def firstLag (t : List Cell) (c : Cell) : Option Rat := minRat ((rowOf t c).map fun o => o.devLag)

def isInt (q : Rat) : Bool := q.den == 1

/-- domain of the placement clauses: a positive resolution dividing all lag differences within a row,
integer lags -/
def fillCompatible (t : List Cell) (res : Int) : Bool :=
  res > 0 && t.all fun c =>
    match firstLag t c with
    | some f => isInt f && isInt ((c.devLag - f) / (res : Rat))
    | none => false

/-- grid lags of the row of `c` strictly between its first and last observed lag -/
def innerGrid (t : List Cell) (res : Int) (c : Cell) : List Int :=
  match firstLag t c, lastLag t .month c with
  | some f, some l => pyRange (f.floor + res) l.floor res
  | _, _ => []

/-- the latest observed cell of the row of `a` evaluated before `a` -/
def sourceOf (t : List Cell) (a : Cell) : Option Cell :=
  ((rowOf t a).filter fun o => o.ev < a.ev).foldl
    (fun best o => match best with
      | none => some o
      | some b => if b.ev < o.ev then some o else some b) none

def fillInsideGaps (t : List Cell) (res : Int) (out : List Cell) : Bool :=
  (added t out).all fun a =>
    optLt (minEval (rowOf t a)) (some a.ev) && optLt (some a.ev) (maxEval (rowOf t a)) &&
    (innerGrid t res a).any fun l => addMonths a.pe (l : Rat) == a.ev

def fillComplete (t : List Cell) (res : Int) (out : List Cell) : Bool :=
  t.all fun rep => (innerGrid t res rep).all fun l =>
    let d := addMonths rep.pe (l : Rat)
    (rowOf t rep).any (fun o => o.ev == d) || (added t out).any fun a => sameRow a rep && a.ev == d

def fillNothingMissing (t : List Cell) (res : Int) : Bool :=
  t.all fun rep => (innerGrid t res rep).all fun l =>
    (rowOf t rep).any fun o => o.ev == addMonths rep.pe (l : Rat)

/-- carried forward from the latest earlier observation (same class, same values), or the same keys all `None`.
The conjunct `a.prev == s.prev` is NOT a clause of the property: it records what the code does on an incremental
triangle (`cell.replace(evaluation_date=…)` keeps the source's `prev_evaluation_date`); the property is silent on it. -/
def fillValues (t : List Cell) (noneFlag : Bool) (out : List Cell) : Bool :=
  (added t out).all fun a =>
    match sourceOf t a with
    | none => false
    | some s =>
      a.kind == s.kind && a.prev == s.prev &&
      (if noneFlag then a.values == s.values.map fun (kv : String × Val) => (kv.1, Val.none)
       else a.values == s.values)

def fillSpec (t : List Cell) (res? : Option Int) (noneFlag : Bool) (out : List Cell) :
    List (String × Bool) :=
  let pres := [ ("preserved", kept t out == t), ("nodupAdded", nodupCoords (added t out)),
                ("canonical", Spec.isCanonical out) ]
  match resolveRes t res? with
  | none => pres ++ [("emptyInput", t.isEmpty)]
  | some res =>
    if fillCompatible t res then
      pres ++ [ ("insideGaps", fillInsideGaps t res out), ("complete", fillComplete t res out),
                ("values", fillValues t noneFlag out),
                ("emptyWhenComplete", !(fillNothingMissing t res) || out == t) ]
    else pres

/-! ### `backfill` -/

/-- the lags `first - k*res` (k ≥ 1) not below `lo` -/
def gridBelow (first : Rat) (res lo : Int) : List Rat :=
  if res > 0 then
    (List.range (((first - (lo : Rat)) / (res : Rat)).floor).toNat).map fun (i : Nat) =>
      first - (((i : Int) + 1 : Int) : Rat) * (res : Rat)
  else []

def lowerBound (t : List Cell) (minLag : Int) : Option Int :=
  (periodResolution t).map fun pres => max minLag (-pres + 1)

/-- first observed cell of the row of `a` -/
def firstOf (t : List Cell) (a : Cell) : Option Cell :=
  (rowOf t a).foldl
    (fun best o => match best with
      | none => some o
      | some b => if o.ev < b.ev then some o else some b) none

def backfillBeforeFirst (t : List Cell) (res lo : Int) (out : List Cell) : Bool :=
  (added t out).all fun a =>
    optLt (some a.ev) (minEval (rowOf t a)) &&
    match firstLag t a with
    | some f => (gridBelow f res lo).any fun l => addMonths a.pe l == a.ev
    | none => false

/-- is the slice of `c` the first (lowest metadata) slice present in the period of `c`? -/
def firstSliceOfPeriod (t : List Cell) (c : Cell) : Bool :=
  (t.filter fun o => o.ps == c.ps && o.pe == c.pe).all fun o => Metadata.cmp c.md o.md != .gt

/-- for the first slice of every period all lags down to the bound are supplied. (The
implementation iterates `period_rows`, so later slices of a period are not backfilled; the property
has no completeness clause for them.) -/
def backfillMinLag (t : List Cell) (res lo : Int) (out : List Cell) : Bool :=
  t.all fun rep =>
    !(firstSliceOfPeriod t rep) ||
    match firstLag t rep with
    | some f => (gridBelow f res lo).all fun l =>
        let d := addMonths rep.pe l
        (added t out).any fun a => sameRow a rep && a.ev == d
    | none => false

/-- zeros plus the row's static fields, keys of the row's first observation; class and previous date
of that observation -/
def backfillValues (t : List Cell) (statics : List String) (out : List Cell) : Bool :=
  (added t out).all fun a =>
    match firstOf t a with
    | none => false
    | some f =>
      a.kind == f.kind && a.prev == f.prev && a.values.keys == f.values.keys &&
      a.values.all fun kv =>
        if statics.contains kv.1 then f.values.get? kv.1 == some kv.2 else kv.2 == Val.int 0

def backfillSpec (t : List Cell) (statics : List String) (res? : Option Int) (minLag : Int)
    (out : List Cell) : List (String × Bool) :=
  let pres := [ ("preserved", kept t out == t), ("nodupAdded", nodupCoords (added t out)),
                ("canonical", Spec.isCanonical out) ]
  match resolveRes t res?, lowerBound t minLag with
  | some res, some lo =>
    pres ++ [ ("beforeFirst", backfillBeforeFirst t res lo out), ("minLag", backfillMinLag t res lo out),
              ("values", backfillValues t statics out) ]
  | _, _ => pres

def allHold (l : List (String × Bool)) : Bool := l.all (·.2)

end Bermuda.Spec.C15
