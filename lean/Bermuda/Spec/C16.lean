/-
Executable statement of property C16 on an (inputs, weights, output) triple. Run by the driver on
the IMPLEMENTATION's output. Cells of the inputs are found BY COORDINATE (not by position), the
weight vector of the `i`-th output cell is column `i` of the weight matrix (or the single
column / the list / `1/M`), and nothing here calls the model's `blend`.
-/
import Bermuda.Model.Blend
namespace Bermuda.Spec.C16
open Bermuda Bermuda.Blend

/-- one output cell per cell of the first triangle, at the same place: coordinates (period, dates,
metadata), cell class and field set of the first triangle -/
def structureOk (t0 out : List Cell) : Bool :=
  out.length == t0.length &&
  (t0.zip out).all fun (c, o) =>
    o.coord == c.coord && o.kind == c.kind && sameKeySet o.values.keys c.values.keys

/-- the input cells at a coordinate, one per triangle (`none` if some triangle lacks it) -/
def cellsAt (ts : List (List Cell)) (k : Coord) : Option (List Cell) :=
  ts.mapM fun t => t.find? (·.coord == k)

/-- weight vector of output cell `i` for `M` inputs, straight from the argument -/
def specWeights (w : Weights) (i M : Nat) : List Rat :=
  match w with
  | .none => List.replicate M (1 / (M : Rat))
  | .list l => l
  | .other => []
  | .dict vals =>
    let rows := vals.flatMap WArr.atleast2d
    if (rows.headD []).length == 1 then rows.map (·.getD 0 0) else rows.map (·.getD i 0)

/-- a value as a list of samples; scalars have one -/
def samples : Val → Option (List Rat)
  | .int i => some [(i : Rat)]
  | .flt q => some [q]
  | .arr _ [_] d => some d
  | _ => none

def pick (row : List Rat) (s : Nat) : Rat := if row.length == 1 then row.getD 0 0 else row.getD s 0

def wsum : List Rat → List Rat → Rat
  | w :: ws, x :: xs => w * x + wsum ws xs
  | _, _ => 0

def absQ (q : Rat) : Rat := if q < 0 then -q else q

def close (tol a b : Rat) : Bool := absQ (a - b) ≤ tol * (1 + absQ b)

def minL (l : List Rat) : Rat := l.foldl (fun m x => if x < m then x else m) (l.headD 0)
def maxL (l : List Rat) : Rat := l.foldl (fun m x => if m < x then x else m) (l.headD 0)

/-- every field of every output cell, with the input values at the same coordinate -/
def forFields (ts : List (List Cell)) (out : List Cell)
    (p : Nat → String → List Val → Val → Bool) : Bool :=
  out.zipIdx.all fun (o, i) =>
    match cellsAt ts o.coord with
    | none => false
    | some cs => o.values.all fun (f, v) => p i f (cs.map fun c => (c.values.get? f).getD .none) v

/-- one field, linear: a float array of the broadcast length `S` whose entry `s` is `Σ_j w_j · v_j[s]`; every input
has exactly 1 or exactly `S` samples (so `pick`'s `getD … 0` never reads a default) -/
def linearFieldOk (wi : List Rat) (tol : Rat) (vals : List Val) (v : Val) : Bool :=
  match vals.mapM samples, v with
  | some rows, .arr false [n] data =>
    let S := rows.foldl (fun m r => max m r.length) 0
    n == S && data.length == S && wi.length == rows.length &&
    (rows.all fun r => r.length == 1 || r.length == S) &&
    (List.range S).all fun s => close tol (data.getD s 0) (wsum wi (rows.map (pick · s)))
  | _, _ => false

/-- **linear**: a float array of the broadcast length whose entry `s` is `Σ_j w_j · v_j[s]`
(scalars and length-1 arrays broadcast); `tol = 0` demands equality over ℚ -/
def linearValueOk (ts : List (List Cell)) (w : Weights) (out : List Cell) (tol : Rat) : Bool :=
  forFields ts out fun i _ vals v => linearFieldOk (specWeights w i ts.length) tol vals v

/-- **linear, convex weights**: every output sample lies between the smallest and the largest
input sample at that position -/
def convexOk (ts : List (List Cell)) (out : List Cell) (tol : Rat) : Bool :=
  forFields ts out fun _ _ vals v =>
    match vals.mapM samples, v with
    | some rows, .arr _ _ data =>
      data.zipIdx.all fun (x, s) =>
        let col := rows.map (pick · s)
        minL col - tol * (1 + absQ (minL col)) ≤ x && x ≤ maxL col + tol * (1 + absQ (maxL col))
    | _, _ => false

/-- **linear, inputs agree (Σw = 1)**: the output is the common value -/
def agreeOk (ts : List (List Cell)) (out : List Cell) (tol : Rat) : Bool :=
  forFields ts out fun _ _ vals v =>
    match vals.mapM samples, v with
    | some (r0 :: _), .arr _ _ data => data.zipIdx.all fun (x, s) => close tol x (pick r0 s)
    | _, _ => false

/-- the samples of a 1-D array (nothing else qualifies) -/
def arr1? : Val → Option (List Rat)
  | .arr _ [_] d => some d
  | _ => none

/-- one field, mixture: an output array has the inputs' common length and every sample equals the
sample AT THE SAME INDEX of one of the inputs; a scalar equals every input's scalar -/
def mixtureFieldOk (vals : List Val) (v : Val) : Bool :=
  match v with
  | .arr false [n] data =>
    (match vals.mapM arr1? with
     | some rows =>
       rows.all (·.length == data.length) && n == data.length &&
       data.zipIdx.all fun (x, s) => rows.any fun r => r.getD s 0 == x
     | none => false)
  | .int _ => vals.all (· == v)
  | .flt _ => vals.all (· == v)
  | _ => false

/-- **mixture membership**: every field of every output cell satisfies `mixtureFieldOk` against
the inputs' values at the same coordinate -/
def mixtureMembership (ts : List (List Cell)) (out : List Cell) : Bool :=
  forFields ts out fun _ _ vals v => mixtureFieldOk vals v

/-- **degenerate weights** `e_j`: the output samples are input `j`'s samples -/
def mixtureIsInput (ts : List (List Cell)) (j : Nat) (out : List Cell) : Bool :=
  forFields ts out fun _ _ vals v =>
    match v, vals.getD j .none with
    | .arr false _ data, .arr _ _ d => data == d
    | _, x => v == x

end Bermuda.Spec.C16
