/-
Executable statement of property C17 on (input, output) pairs. Run by the driver on the
IMPLEMENTATION's outputs. Cells are matched BY COORDINATE (adding the `bootstrap` detail can
reorder slices), nothing here calls the model's `bootstrap` / `thin` / `momentMatch`.
-/
import Bermuda.Model.Resample
namespace Bermuda.Spec.C17
open Bermuda Bermuda.Resample

/-- same length and `xs[i] < xs[j] → r[i] ≤ r[j]` (tie-agnostic) -/
def rankOrderOk (xs r : List Rat) : Bool :=
  r.length == xs.length &&
  (List.range xs.length).all fun i => (List.range xs.length).all fun j =>
    !(xs.getD i 0 < xs.getD j 0) || r.getD i 0 ≤ r.getD j 0

/-- `r` already carries the rank order of `xs`, ties by index: re-imposing changes nothing -/
def rankFixed (xs r : List Rat) : Bool := reimposeRank xs r == r

def sameMultiset (a b : List Rat) : Bool := sortQ a == sortQ b

def sameKeys (a b : List String) : Bool := a.all (b.contains ·) && b.all (a.contains ·)

def sameValues (a b : Dict Val) : Bool :=
  sameKeys a.keys b.keys && a.all fun (k, v) => b.get? k == some v

def tagMd (m : Metadata) (i : Nat) : Metadata := m.edit (.detail "bootstrap" (.num (i : Rat)))

/-- the cell of replicate `i` sitting at the coordinates of `c` (exactly one must) -/
def repCell (rep : List Cell) (c : Cell) (i : Nat) : Option Cell :=
  match rep.filter (fun o => o.ps == c.ps && o.pe == c.pe && o.ev == c.ev && o.prev == c.prev &&
                              o.md == tagMd c.md i) with
  | [o] => some o
  | _ => none

/-- replicate `i` has exactly the coordinates, cell class and field names of `t`, every slice
carrying the extra detail `bootstrap = i` -/
def replicateStructureOk (t rep : List Cell) (i : Nat) : Bool :=
  rep.length == t.length &&
  t.all fun c =>
    match repCell rep c i with
    | some o => o.kind == c.kind && sameKeys o.values.keys c.values.keys
    | none => false

/-- `n` replicates, each with the structure of `t` -/
def bootstrapStructureOk (t : List Cell) (n : Nat) (reps : List (List Cell)) : Bool :=
  reps.length == n && reps.zipIdx.all fun (rep, i) => replicateStructureOk t rep i

def sliceOf (t : List Cell) (c : Cell) : List Cell := t.filter (·.md == c.md)

/-- age-to-age slices: the earliest development cell of every period is unchanged -/
def firstCellsUnchanged (t rep : List Cell) (i : Nat) : Bool :=
  t.all fun c =>
    let s := sliceOf t c
    if useAtas s && initialLag s (c.ps, c.pe) == some c.devLag then
      match repCell rep c i with
      | some o => sameValues o.values c.values
      | none => false
    else true

def isFalsy : Option Val → Bool
  | none => true
  | some .none => true
  | some (.int i) => i == 0
  | some (.flt q) => q == 0
  | _ => false

def num? : Option Val → Option Rat
  | some (.int i) => some (i : Rat)
  | some (.flt q) => some q
  | _ => none

/-- `_safe_ata_division` -/
def safeDiv (x y : Option Val) : Rat :=
  (if isFalsy x then 1 else (num? x).getD 1) / (if isFalsy y then 1 else (num? y).getD 1)

/-- empirical age-to-age factors of a slice from lag `pl` to lag `l` for field `f` -/
def ratios (s : List Cell) (pl l : Rat) (f : String) : List Rat :=
  (periodsOf s).filterMap fun p =>
    match s.find? (fun c => (c.ps, c.pe) == p && c.devLag == pl),
          s.find? (fun c => (c.ps, c.pe) == p && c.devLag == l) with
    | some a, some b => some (safeDiv (b.values.get? f) (a.values.get? f))
    | _, _ => none

/-- age-to-age slices: every later cell is the previous DEVELOPED value times one of the source's
empirical factors for that lag (selected fields), its own value otherwise -/
def ataMembershipOk (t rep : List Cell) (i : Nat) (field : Option (List String)) : Bool :=
  t.all fun c =>
    let s := sliceOf t c
    if !useAtas s then true else
    let row := s.filter fun d => (d.ps, d.pe) == (c.ps, c.pe) && d.devLag < c.devLag
    match row.getLast?, repCell rep c i with
    | none, _ => true
    | _, none => false
    | some prev, some o =>
      match repCell rep prev i with
      | none => false
      | some po =>
        let sel := field.getD (fieldsOf s)
        c.values.all fun (f, v) =>
          if sel.contains f && po.values.contains f then
            if isFalsy (some v) then o.values.get? f == some .none
            else
              match num? (o.values.get? f), num? (po.values.get? f) with
              | some x, some y => (ratios s prev.devLag c.devLag f).any fun r => x == y * r
              | _, _ => false
          else o.values.get? f == some v

/-! ### thin -/

/-- the index vector recovered from the first array with more than one, pairwise distinct, samples -/
def recoverIdx (t out : List Cell) : Option (List Nat) :=
  (t.zip out).findSome? fun (c, o) =>
    c.values.findSome? fun (f, v) =>
      match v, o.values.get? f with
      | .arr _ [_] d, some (.arr _ [_] d') =>
        if d.length > 1 && d.Nodup then some (d'.map (d.idxOf ·)) else none
      | _, _ => none

/-- same cells; ONE vector of `k` distinct in-range positions applied to every array with more than
one sample, in every cell; everything else untouched -/
def thinOk (t out : List Cell) (k n : Nat) : Bool :=
  out.length == t.length &&
  match recoverIdx t out with
  | none => false
  | some idx =>
    idx.length == k && idx.Nodup && idx.all (· < n) &&
    (t.zip out).all fun (c, o) =>
      o.coord == c.coord && o.kind == c.kind && o.values.keys == c.values.keys &&
      c.values.all fun (f, v) => o.values.get? f == some (thinVal idx v)

/-! ### moment_match -/

/-- same cells and fields; a selected 1-D array becomes a float array of the same length and rank
order; scalars and every other field are unchanged -/
def momentOk (t out : List Cell) (fields : List String) : Bool :=
  out.length == t.length &&
  (t.zip out).all fun (c, o) =>
    o.coord == c.coord && o.kind == c.kind && o.values.keys == c.values.keys &&
    c.values.all fun (f, v) =>
      match v, fields.contains f with
      | .arr _ [n] d, true =>
        (match o.values.get? f with
         | some (.arr false [n'] r) => n' == n && rankOrderOk d r
         | _ => false)
      | _, _ => o.values.get? f == some v

end Bermuda.Spec.C17
