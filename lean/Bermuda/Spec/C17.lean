/-
Executable statement of property C17 on (input, output) pairs. Run by the driver on the
IMPLEMENTATION's outputs. Cells are matched BY COORDINATE (adding the `bootstrap` detail can
reorder slices), nothing here calls the model's `bootstrap` / `thin` / `momentMatch`.

INDEPENDENT of the model's arithmetic (state the property on input and output only): `rankOrderOk`, `rankFixed`,
`sameMultiset`, `bootstrapStructureOk`, `firstCellsUnchanged`, `ataMembershipOk` (own `ratios`/`safeDiv`),
`thinOk` (recovers the index vector from the output), `momentOk`, `reproducesSlice`, `probVectorsOk`, and —
given the closed-form interval ends — `meLimitsOk` / `meEnvelopeOk` (bounds only).
DIFFERENTIAL (they RE-RUN pieces of the model and compare; they tie the implementation to the theorems about the
model but are not a second statement of the property): `mePermOk`, `meValueOk` (call `meQuantiles`),
`meIntervalsOk` (calls `y0At`/`y1At`), `chainOkSlice` (calls `resampledAtas`), `weightsOk` (calls `ataWeights`),
`momentsOk` (calls `meanQ`/`varQ`).
-/
import Bermuda.Model.Resample
import Bermuda.Model.ResampleATA
namespace Bermuda.Spec.C17
open Bermuda Bermuda.Resample

/-- same length and `xs[i] < xs[j] → r[i] ≤ r[j]` (tie-agnostic) -/
def rankOrderOk (xs r : List Rat) : Bool :=
  r.length == xs.length &&
  (List.range xs.length).all fun i => (List.range xs.length).all fun j =>
    !(xs.getD i 0 < xs.getD j 0) || r.getD i 0 ≤ r.getD j 0

/-- `r` already carries the rank order of `xs`, ties by index: re-imposing changes nothing -/
def rankFixed (xs r : List Rat) : Bool := reimposeRank xs r == r

def sameMultiset (a b : List Rat) : Bool := sortQ a == sortQ b

def sameKeys (a b : List String) : Bool := a.all (b.contains ·) && b.all (a.contains ·)

def sameValues (a b : Dict Val) : Bool :=
  sameKeys a.keys b.keys && a.all fun (k, v) => b.get? k == some v

def tagMd (m : Metadata) (i : Nat) : Metadata := m.edit (.detail "bootstrap" (.num (i : Rat)))

/-- the cell of replicate `i` sitting at the coordinates of `c` (exactly one must) -/
def repCell (rep : List Cell) (c : Cell) (i : Nat) : Option Cell :=
  match rep.filter (fun o => o.ps == c.ps && o.pe == c.pe && o.ev == c.ev && o.prev == c.prev &&
                              o.md == tagMd c.md i) with
  | [o] => some o
  | _ => none

/-- replicate `i` has exactly the coordinates, cell class and field names of `t`, every slice
carrying the extra detail `bootstrap = i` -/
def replicateStructureOk (t rep : List Cell) (i : Nat) : Bool :=
  rep.length == t.length &&
  t.all fun c =>
    match repCell rep c i with
    | some o => o.kind == c.kind && sameKeys o.values.keys c.values.keys
    | none => false

/-- `n` replicates, each with the structure of `t` -/
def bootstrapStructureOk (t : List Cell) (n : Nat) (reps : List (List Cell)) : Bool :=
  reps.length == n && reps.zipIdx.all fun (rep, i) => replicateStructureOk t rep i

def sliceOf (t : List Cell) (c : Cell) : List Cell := t.filter (·.md == c.md)

/-- age-to-age slices: the earliest development cell of every period is unchanged -/
def firstCellsUnchanged (t rep : List Cell) (i : Nat) : Bool :=
  t.all fun c =>
    let s := sliceOf t c
    if useAtas s && initialLag s (c.ps, c.pe) == some c.devLag then
      match repCell rep c i with
      | some o => sameValues o.values c.values
      | none => false
    else true

def isFalsy : Option Val → Bool
  | none => true
  | some .none => true
  | some (.int i) => i == 0
  | some (.flt q) => q == 0
  | _ => false

def num? : Option Val → Option Rat
  | some (.int i) => some (i : Rat)
  | some (.flt q) => some q
  | _ => none

/-- `_safe_ata_division` -/
def safeDiv (x y : Option Val) : Rat :=
  (if isFalsy x then 1 else (num? x).getD 1) / (if isFalsy y then 1 else (num? y).getD 1)

/-- empirical age-to-age factors of a slice from lag `pl` to lag `l` for field `f` -/
def ratios (s : List Cell) (pl l : Rat) (f : String) : List Rat :=
  (periodsOf s).filterMap fun p =>
    match s.find? (fun c => (c.ps, c.pe) == p && c.devLag == pl),
          s.find? (fun c => (c.ps, c.pe) == p && c.devLag == l) with
    | some a, some b => some (safeDiv (b.values.get? f) (a.values.get? f))
    | _, _ => none

/-- age-to-age slices: every later cell is the previous DEVELOPED value times one of the source's
empirical factors for that lag (selected fields), its own value otherwise -/
def ataMembershipOk (t rep : List Cell) (i : Nat) (field : Option (List String)) : Bool :=
  t.all fun c =>
    let s := sliceOf t c
    if !useAtas s then true else
    let row := s.filter fun d => (d.ps, d.pe) == (c.ps, c.pe) && d.devLag < c.devLag
    match row.getLast?, repCell rep c i with
    | none, _ => true
    | _, none => false
    | some prev, some o =>
      match repCell rep prev i with
      | none => false
      | some po =>
        let sel := field.getD (fieldsOf s)
        c.values.all fun (f, v) =>
          if sel.contains f && po.values.contains f then
            if isFalsy (some v) then o.values.get? f == some .none
            else
              match num? (o.values.get? f), num? (po.values.get? f) with
              | some x, some y => (ratios s prev.devLag c.devLag f).any fun r => x == y * r
              | _, _ => false
          else o.values.get? f == some v

/-! ### thin -/

/-- the index vector recovered from the first array with more than one, pairwise distinct, samples -/
def recoverIdx (t out : List Cell) : Option (List Nat) :=
  (t.zip out).findSome? fun (c, o) =>
    c.values.findSome? fun (f, v) =>
      match v, o.values.get? f with
      | .arr _ [_] d, some (.arr _ [_] d') =>
        if d.length > 1 && d.Nodup then some (d'.map (d.idxOf ·)) else none
      | _, _ => none

/-- same cells; ONE vector of `k` distinct in-range positions applied to every array with more than
one sample, in every cell; everything else untouched -/
def thinOk (t out : List Cell) (k n : Nat) : Bool :=
  out.length == t.length &&
  match recoverIdx t out with
  | none => false
  | some idx =>
    idx.length == k && idx.Nodup && idx.all (· < n) &&
    (t.zip out).all fun (c, o) =>
      o.coord == c.coord && o.kind == c.kind && o.values.keys == c.values.keys &&
      c.values.all fun (f, v) => o.values.get? f == some (thinVal idx v)

/-! ### moment_match -/

/-- same cells and fields; a selected 1-D array becomes a float array of the same length and rank
order; scalars and every other field are unchanged -/
def momentOk (t out : List Cell) (fields : List String) : Bool :=
  out.length == t.length &&
  (t.zip out).all fun (c, o) =>
    o.coord == c.coord && o.kind == c.kind && o.values.keys == c.values.keys &&
    c.values.all fun (f, v) =>
      match v, fields.contains f with
      | .arr _ [n] d, true =>
        (match o.values.get? f with
         | some (.arr false [n'] r) => n' == n && rankOrderOk d r
         | _ => false)
      | _, _ => o.values.get? f == some v

/-! ### maximum entropy: the arithmetic (`Model/ResampleME.lean`)

`tol` is an ABSOLUTE slack (the harness passes 2^-40 × the magnitude of the series and its limits, because the
implementation computes in float64); the theorems hold with `tol = 0`. -/

def closeTo (tol a b : Rat) : Bool := decide (a - b ≤ tol) && decide (b - a ≤ tol)

def closeLists (tol : Rat) (a b : List Rat) : Bool :=
  a.length == b.length && (a.zip b).all fun p => closeTo tol p.1 p.2

/-- every value lies in one of the `n` mean-preserving (shifted) intervals of the construction -/
def meIntervalsOk (xs : List Rat) (L : Option (Rat × Rat)) (tol : Rat) (r : List Rat) : Bool :=
  let sx := sortQ xs
  let lim := meLimits xs L
  let ivs := (List.range xs.length).map fun i => (y0At sx lim.1 lim.2 i, y1At sx lim.1 lim.2 i)
  r.all fun q => ivs.any fun iv =>
    (decide (iv.1 - tol ≤ q) && decide (q ≤ iv.2 + tol)) || (decide (iv.2 - tol ≤ q) && decide (q ≤ iv.1 + tol))

/-- limits outside the data (`lo ≤ min x`, `max x ≤ hi`): every value lies in `[meLower, meUpper]` -/
def meEnvelopeOk (xs : List Rat) (L : Option (Rat × Rat)) (tol : Rat) (r : List Rat) : Bool :=
  let sx := sortQ xs
  let lim := meLimits xs L
  if decide (lim.1 ≤ sx.getD 0 0) && decide (sx.getD (xs.length - 1) 0 ≤ lim.2) then
    r.all fun q => decide (meLower sx lim.1 lim.2 - tol ≤ q) && decide (q ≤ meUpper sx lim.1 lim.2 + tol)
  else true

/-- WITHIN THE LIMITS, as far as the construction guarantees it: when `limitsBind` (always without `L`) every
value lies in `[lo, hi]` -/
def meLimitsOk (xs : List Rat) (L : Option (Rat × Rat)) (tol : Rat) (r : List Rat) : Bool :=
  let sx := sortQ xs
  let lim := meLimits xs L
  if limitsBind sx lim.1 lim.2 then r.all fun q => decide (lim.1 - tol ≤ q) && decide (q ≤ lim.2 + tol)
  else true

/-- the result is a rearrangement of the quantiles of the (sorted) draws -/
def mePermOk (xs U : List Rat) (L : Option (Rat × Rat)) (tol : Rat) (r : List Rat) : Bool :=
  match meQuantiles xs U L with
  | .ok qs => closeLists tol (sortQ qs) (sortQ r)
  | .error _ => true

/-- … namely the one that carries the rank order of the source (ties by position) -/
def meValueOk (xs U : List Rat) (L : Option (Rat × Rat)) (tol : Rat) (r : List Rat) : Bool :=
  match meQuantiles xs U L with
  | .ok qs => closeLists tol (reimposeRank xs qs) r
  | .error _ => true

/-! ### age-to-age: the chained product with the drawn positions (`Model/ResampleATA.lean`) -/

def factorAt (F : Factors) (lag : Rat) (f : String) (pidx : Nat) : Option Rat :=
  match assoc? F lag with
  | none => none
  | some tbl => match assoc? tbl f with
    | none => none
    | some arr => arr[pidx]?

/-- the chained-product clause for ONE cell `c` after the first of its period: `pvals` are the values of the
previous DEVELOPED cell, `o` the developed cell; a selected field the previous cell has reads `None` when `c`'s own
value is falsy, else `previous developed value × factor`; every other field keeps `c`'s value -/
def chainCellOk (F : Factors) (fields : List String) (pidx : Nat) (c : Cell) (pvals : Dict Val) (o : Cell) : Bool :=
  c.values.all fun (f, v) =>
    if fields.contains f && pvals.contains f then
      if isFalsy (some v) then o.values.get? f == some .none
      else
        match num? (o.values.get? f), num? (pvals.get? f), factorAt F c.devLag f pidx with
        | some x, some y, some r => x == y * r
        | _, _, _ => false
    else o.values.get? f == some v

/-- one age-to-age slice `s` of the source, replicate `i`, index draws `I`: every cell after the first of its
period satisfies `chainCellOk` against the developed cell before it in its row, with the factor
`atas[lag][field][I[lag][field][period_idx]]` -/
def chainOkSlice (s rep : List Cell) (i : Nat) (fields : List String) (I : IdxTable) : Bool :=
  match resampledAtas s fields I with
  | .error _ => true
  | .ok F =>
    s.all fun c =>
      let row := s.filter fun d => (d.ps, d.pe) == (c.ps, c.pe) && d.devLag < c.devLag
      match row.getLast?, repCell rep c i with
      | none, _ => true
      | _, none => false
      | some prev, some o =>
        match repCell rep prev i with
        | none => false
        | some po => chainCellOk F fields ((periodsOf s).idxOf (c.ps, c.pe)) c po.values o

/-- identity draws (every period keeps its own factors): the replicate repeats the source, value by value
(a falsy selected value after the first cell of its period reads `None`) -/
def reproducesSlice (s rep : List Cell) (i : Nat) (fields : List String) : Bool :=
  s.all fun c =>
    let later := s.any fun d => (d.ps, d.pe) == (c.ps, c.pe) && d.devLag < c.devLag
    match repCell rep c i with
    | none => false
    | some o =>
      c.values.all fun (f, v) =>
        if later && fields.contains f && isFalsy (some v) then o.values.get? f == some .none
        else match num? (some v), num? (o.values.get? f) with
          | some a, some b => a == b
          | _, _ => o.values.get? f == some v

/-! ### moment_match: what the sampler is asked for -/

/-- mean, population variance and count handed to the sampler are the source array's -/
def momentsOk (d : List Rat) (mean var : Rat) (n : Nat) (tolM tolV : Rat) : Bool :=
  closeTo tolM (meanQ d) mean && closeTo tolV (varQ d) var && n == d.length

/-! ### the probability vectors handed to `rng.choice` (age-to-age slices) -/

/-- independent of the model: every recorded vector is non-negative and sums to 1 (± tol) -/
def probVectorsOk (tol : Rat) (impl : Factors) : Bool :=
  impl.all fun lt => lt.2.all fun fa =>
    fa.2.all (fun v => decide (0 ≤ v)) && closeTo tol (sumQ fa.2) 1

/-- the recorded vectors are the slice's volume weights `ataWeights` (lag by lag, field by field) -/
def weightsOk (s : List Cell) (fields : List String) (tol : Rat) (impl : Factors) : Bool :=
  match ataWeights s fields with
  | .error _ => true
  | .ok W =>
    W.length == impl.length && (W.zip impl).all fun p =>
      p.1.1 == p.2.1 && p.1.2.length == p.2.2.length && (p.1.2.zip p.2.2).all fun q =>
        q.1.1 == q.2.1 && closeLists tol q.1.2 q.2.2

/-! ### maximum entropy: INDEPENDENT restatement of the quantile function (centre / width form)

Nothing below calls `meQuantiles`, `meQuantile`, `quantileOn`, `meIdx`, `zAt`, `meanAt`, `shiftAt`, `y0At`, `y1At`.
For a draw `u ∈ [0, 1)` on a series of `n ≥ 2` sorted values `x` with outer ends `lo`, `hi`:
grid cell `i = ⌊u·n⌋`; the cell's interval has CENTRE `(3x₀+x₁)/4`, `(x_{i-1}+2x_i+x_{i+1})/4`, `(3x_{n-1}+x_{n-2})/4`
(first / interior / last) and WIDTH `right − left` with `left = lo` or `(x_{i-1}+x_i)/2`, `right = hi` or
`(x_i+x_{i+1})/2`; that is the interval `[z_i + shift_i, z_{i+1} + shift_i]` of the code. The value is the
linear interpolation `centre + ((u·n − i) − 1/2)·width`. (`Properties.C17.me_centre_width`: equal to the model.) -/

def cwCentre (sx : List Rat) (i : Nat) : Rat :=
  if i = 0 then (3 * sx.getD 0 0 + sx.getD 1 0) / 4
  else if i + 1 = sx.length then (3 * sx.getD i 0 + sx.getD (i - 1) 0) / 4
  else (sx.getD (i - 1) 0 + 2 * sx.getD i 0 + sx.getD (i + 1) 0) / 4

def cwWidth (sx : List Rat) (lo hi : Rat) (i : Nat) : Rat :=
  (if i + 1 = sx.length then hi else (sx.getD i 0 + sx.getD (i + 1) 0) / 2) -
  (if i = 0 then lo else (sx.getD (i - 1) 0 + sx.getD i 0) / 2)

def cwCell (n : Nat) (u : Rat) : Nat := (u * (n : Rat)).floor.toNat

def cwValue (sx : List Rat) (lo hi u : Rat) : Rat :=
  let i := cwCell sx.length u
  cwCentre sx i + ((u * (sx.length : Rat) - (i : Rat)) - 1 / 2) * cwWidth sx lo hi i

/-- the restatement speaks about: at least two values, at least as many draws, all draws in `[0, 1)` -/
def meCWApplies (xs U : List Rat) : Bool :=
  decide (2 ≤ xs.length) && decide (xs.length ≤ U.length) && U.all fun u => decide (0 ≤ u) && decide (u < 1)

/-- the replicate is, as a multiset, the centre/width interpolation of the `n` smallest draws; together with
`rankFixed` (which value sits where) this determines the replicate -/
def meValueCWOk (xs U : List Rat) (L : Option (Rat × Rat)) (tol : Rat) (r : List Rat) : Bool :=
  if meCWApplies xs U then
    let sx := sortQ xs
    let lim := meLimits xs L
    closeLists tol (sortQ (((sortQ U).take xs.length).map (cwValue sx lim.1 lim.2))) (sortQ r)
  else true

/-- every value lies in one of the `n` cell intervals `centre ± |width|/2` -/
def meIntervalsCWOk (xs : List Rat) (L : Option (Rat × Rat)) (tol : Rat) (r : List Rat) : Bool :=
  if decide (2 ≤ xs.length) then
    let sx := sortQ xs
    let lim := meLimits xs L
    let cells := (List.range xs.length).map fun i =>
      let w := cwWidth sx lim.1 lim.2 i
      (cwCentre sx i, (if w < 0 then -w else w) / 2)
    r.all fun q => cells.any fun cw => decide (cw.1 - cw.2 - tol ≤ q) && decide (q ≤ cw.1 + cw.2 + tol)
  else true

end Bermuda.Spec.C17
