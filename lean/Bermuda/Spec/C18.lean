/-
C18 — conservation predicates, executable, evaluated by the driver on the IMPLEMENTATION's output.
`tol` is a relative tolerance supplied by the harness: 0 where IEEE arithmetic is exact on the
generated (dyadic) inputs, 2^-40 where the code divides (weight renormalisation, share
normalisation, pattern normalisation). Theorems are about `tol = 0` over ℚ.
-/
import Bermuda.Model.Units
namespace Bermuda.Spec.C18
open Bermuda Bermuda.Units

def rabs (q : Rat) : Rat := if q < 0 then -q else q

/-- `|a - b| ≤ tol · (|a| + |b|)`; with `tol = 0` this is `a = b` -/
def close (tol a b : Rat) : Bool := rabs (a - b) ≤ tol * (rabs a + rabs b)

def closeList (tol : Rat) : List Rat → List Rat → Bool
  | [], [] => true
  | a :: as, b :: bs => close tol a b && closeList tol as bs
  | _, _ => false

/-- numeric content of a value (kind and 0-d/1-element shape forgotten) -/
def vdata (v : Val) : List Rat := v.data.getD []

/-- same numbers (up to `tol`), `None` only matches `None` -/
def valClose (tol : Rat) (a b : Val) : Bool :=
  (a == .none) == (b == .none) && closeList tol (vdata a) (vdata b)

/-- elementwise sum of equally long data vectors; `none` for no summand or ragged lengths -/
def sumData : List (List Rat) → Option (List Rat)
  | [] => none
  | [d] => some d
  | d :: rest => match sumData rest with
    | some s => if s.length == d.length then some (List.zipWith (· + ·) d s) else none
    | none => none

def optClose (tol : Rat) : Option (List Rat) → Option (List Rat) → Bool
  | none, none => true
  | some a, some b => closeList tol a b
  | _, _ => false

def sameKeys (a b : List String) : Bool := sortStrings a == sortStrings b

/-- remove the first element satisfying `p` -/
def removeFirst {α} (p : α → Bool) : List α → Option (List α)
  | [] => none
  | a :: rest => if p a then some rest else (removeFirst p rest).map (a :: ·)

/-- every input cell is matched with its own output cell (a bijection found greedily; complete
because `rel c` determines the output cell) -/
def matchAll (rel : Cell → Cell → Bool) : List Cell → List Cell → Bool
  | [], os => os.isEmpty
  | c :: cs, os => match removeFirst (rel c) os with
    | some os' => matchAll rel cs os'
    | none => false

/-! ### currency -/

/-- what "currency-denominated" means for the property: premium and loss amounts. Independent of
the code's table; `Properties.C18.currencyFields_pinned` shows the regenerated table is this list. -/
def moneyFields : List String :=
  ["earned_premium", "used_earned_premium", "written_premium", "paid_loss", "reported_loss", "incurred_loss"]

/-- `o` is `c` converted: same class and dates, metadata equal except `currency = target`; a cell
already in the target currency is identical; otherwise exactly the currency fields are the input
value times the slice's rate and every other field is identical. -/
def convRel (fields : List String) (target : String) (rates : List (String × Rat)) (c o : Cell) : Bool :=
  o.kind == c.kind && o.ps == c.ps && o.pe == c.pe && o.ev == c.ev && o.prev == c.prev &&
  o.md == { c.md with currency := some target } &&
  sameKeys o.values.keys c.values.keys &&
  c.values.all fun kv =>
    match o.values.get? kv.1 with
    | none => false
    | some v' =>
      if c.md.currency == some target || !fields.contains kv.1 then v' == kv.2
      else match c.md.currency.bind (fun cur => (rates.find? (·.1 == cur)).map (·.2)) with
        | none => false
        | some r => kv.2 != .none && v'.shape == kv.2.shape && vdata v' == (vdata kv.2).map (· * r)

/-- the call must be refused: a slice without currency, or in a foreign currency without a rate -/
def currencyMustRefuse (target : String) (rates : List (String × Rat)) (input : List Cell) : Bool :=
  input.any fun c => match c.md.currency with
    | none => true
    | some cur => cur != target && !(rates.any (·.1 == cur))

def currencySpec (fields : List String) (target : String) (rates : List (String × Rat))
    (input output : List Cell) : Bool :=
  !currencyMustRefuse target rates input &&
  output.length == input.length &&
  output.all (·.md.currency == some target) &&
  matchAll (convRel fields target rates) input output

/-! ### totals: the vocabulary of the conservation theorems and of the sum clauses below -/

/-- the `i`-th number of a value (0 beyond its length) -/
def comp (v : Val) (i : Nat) : Rat := ((vdata v)[i]?).getD 0

/-- the `i`-th number of field `f` of a cell (0 if the cell has no such field) -/
def cellField (c : Cell) (f : String) (i : Nat) : Rat :=
  ((c.values.filter (·.1 == f)).map fun kv => comp kv.2 i).sum

/-- total of the `i`-th number of field `f` over a list of cells -/
def total (cells : List Cell) (f : String) (i : Nat) : Rat := (cells.map (cellField · f i)).sum

/-- the longest value of field `f` among the cells -/
def maxLen (cells : List Cell) (f : String) : Nat :=
  (cells.flatMap fun c => (c.values.filter (·.1 == f)).map fun kv => (vdata kv.2).length).foldl max 0

/-! ### disaggregation -/

/-- the first sub-period of `c` is over at its evaluation date -/
def observable (res : Nat) (c : Cell) : Bool := (addMonths c.ps (res : Rat)).pred ≤ c.ev

def period (c : Cell) : Date × Date := (c.ps, c.pe)

/-- number of months touched by the cell's own period -/
def monthsIn (c : Cell) : Nat := (monthToId c.pe - monthToId c.ps + 1).toNat

/-- the sub-periods `c` must be split into: the consecutive `res`-month blocks from `c.ps`
(`[add_months(ps, k·res), add_months(ps, (k+1)·res) − 1 day]`) that end within the cell's period and
by its evaluation date -/
def expectedSubs (res : Nat) (c : Cell) : List (Date × Date) :=
  (subperiods c.ps res (monthsIn c)).filter fun p => p.2 ≤ c.pe && p.2 ≤ c.ev

/-- output cells of `c`'s slice and evaluation date on one of `c`'s expected sub-periods -/
def childrenOf (res : Nat) (output : List Cell) (c : Cell) : List Cell :=
  output.filter fun o => o.md == c.md && o.ev == c.ev && (expectedSubs res c).contains (o.ps, o.pe)

/-- every cell is split into EXACTLY its expected sub-periods (each once: tiling of the observable
part, nothing missing), as plain Cells carrying exactly the selected fields, every selected field
adding up to the original component by component; nothing else is in the output -/
def disaggSpec (res : Nat) (fields : List String) (tol : Rat) (input output : List Cell) : Bool :=
  (input.all fun c =>
    let ch := childrenOf res output c
    let sel := c.values.filter fun kv => fields.contains kv.1
    (ch.map period).isPerm (expectedSubs res c) &&
    ch.all (fun o => o.kind == .cell && sameKeys o.values.keys (sel.map (·.1))) &&
    (ch.isEmpty || sel.all fun kv =>
      (List.range (max (maxLen ch kv.1) (vdata kv.2).length)).all fun i =>
        close tol (total ch kv.1 i) (cellField c kv.1 i))) &&
  output.length == ((input.map fun c => (childrenOf res output c).length).sum)

/-- well-formedness assumed by `disagg_spec_bridge` (decidable; evaluated by the driver on every
case): in every slice the period resolution `L` is a multiple of `res`, every period starts on the
first of a (real) month from 1970 on and is exactly `L` months long, no cell occurs twice, and two cells
with the same evaluation date have disjoint periods -/
def disaggWF (res : Nat) (t : List Cell) : Bool :=
  (Triangle.slices t).all fun sl =>
    match periodResolution sl.2 with
    | .ok L =>
      decide (1 ≤ res) && decide (0 < L) && L % (res : Int) == 0 && decide sl.2.Nodup &&
      sl.2.all (fun c => c.ps.valid && c.ps.d == 1 && decide (0 ≤ monthToId c.ps) &&
        c.pe == (addMonths c.ps ((L.toNat : Nat) : Rat)).pred &&
        decide ((c.values.map (·.1)).Nodup)) &&
      sl.2.all fun c => sl.2.all fun c' =>
        c == c' || c.ev != c'.ev || decide (c.pe < c'.ps) || decide (c'.pe < c.ps)
    | .error _ => false

/-- aggregating the disaggregated triangle back gives the input again (selected fields, cells with
an observable sub-period), cell class aside -/
def aggBackSpec (res : Nat) (fields : List String) (tol : Rat) (input agg : List Cell) : Bool :=
  let expected := input.filter (observable res)
  agg.length == expected.length &&
  (expected.zip agg).all fun (c, a) =>
    let sel := c.values.filter fun kv => fields.contains kv.1
    a.md == c.md && a.ps == c.ps && a.pe == c.pe && a.ev == c.ev &&
    sameKeys a.values.keys (sel.map (·.1)) &&
    sel.all fun kv => match a.values.get? kv.1 with
      | none => false
      | some v => valClose tol v kv.2

/-! ### policy year -/

def toPolicy (m : Metadata) : Metadata := { m with riskBasis := some "Policy" }

/-- per (slice, evaluation date, field, component) the total is unchanged — components compared up
to the longest value of the field on either side —; every output cell is a cumulative cell of a
Policy-basis slice -/
def policyYearSpec (tol : Rat) (input output : List Cell) : Bool :=
  output.all (fun o => o.md.riskBasis == some "Policy" && o.kind == .cumulative) &&
  let key : Cell → Metadata × Date := fun c => (toPolicy c.md, c.ev)
  (dedup (input.map key ++ output.map key)).all fun k =>
    let ins := input.filter (key · == k)
    let outs := output.filter (key · == k)
    (dedup (ins.flatMap (·.values.keys) ++ outs.flatMap (·.values.keys))).all fun f =>
      (List.range (max (maxLen ins f) (maxLen outs f))).all fun i =>
        close tol (total outs f i) (total ins f i)

/-- contract of the share table (DESIGN §7 C18: "row sums positive"): in every slice the normalised
shares of every accident period over the policy years sum to 1 (i.e. the raw total is not 0). It
fails only when issuance is not continuous and the policies written in the first month of each
policy year do not reach some accident period (`policy_length_months < 11`): the code then drops
that period's amounts. -/
def policyCovered (input : List Cell) (policyLen : Nat) (origin : Date) (continuous : Bool) : Bool :=
  (Triangle.slices input).all fun sl =>
    match policyYearsCovered sl.2 origin with
    | .ok pys => (aqShares (periods sl.2) pys policyLen continuous).all fun row =>
        (row.2.map (·.2)).sum == 1
    | .error _ => true

/-! ### premium pattern -/

def prefixSums (l : List Rat) : List Rat := (l.foldl (fun (acc : List Rat × Rat) x => (acc.1 ++ [acc.2 + x], acc.2 + x)) ([], 0)).1

/-- both patterns sum to the volume, are non-negative, and cumulative earned ≤ cumulative written -/
def premiumSpec (tol vol : Rat) (written earned : List Rat) : Bool :=
  let eps := tol * rabs vol
  written.length == earned.length &&
  rabs (written.sum - vol) ≤ eps && rabs (earned.sum - vol) ≤ eps &&
  written.all (fun w => -eps ≤ w) && earned.all (fun e => -eps ≤ e) &&
  ((prefixSums earned).zip (prefixSums written)).all fun (e, w) => e ≤ w + eps

end Bermuda.Spec.C18
