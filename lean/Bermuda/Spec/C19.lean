/-
Executable statement of C19 on (original triangle, what was read from a torn file): the result is
exactly the leading cells of the original, in order, unmodified.
-/
import Bermuda.Spec.C05
namespace Bermuda.Spec.C19
open Bermuda.Codec Bermuda.Spec.C05

/-- `decoded` is a prefix of `original` (cell by cell, dicts compared as dicts) -/
def prefixSafe (original decoded : RawTriangle) : Bool :=
  decide (decoded.length ≤ original.length) && cellsEqv (original.take decoded.length) decoded

end Bermuda.Spec.C19
