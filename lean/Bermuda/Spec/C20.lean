/-
Executable statement of property C20 on (triangle, records) — run by the driver on the records
returned by the IMPLEMENTATION's `build_plot_data`.

The Spec does not look at `Generated.*`: which metric means what and which statistic a field name
states are written here from the property text:
  * one record per cell, in cell order, with the cell's period, evaluation date, development lag;
  * `<x>_loss_ratio` = 100 · `<x>_loss` / `earned_premium`; plain fields passed through; ATA metrics
    from the cell and the NEXT evaluation of the same slice and period; absent inputs ⇒ no summary;
  * sample-valued: mean, median, sd, min, max and `q<a>[_<b>]` = the a.b-th percentile (numpy's
    linear interpolation), hence monotone; scalar-valued: `mean` only.
Numbers coming from IEEE arithmetic are compared with a relative/absolute tolerance `tol`
(`tol = 0` for the model's exact output).
-/
import Bermuda.Model.Plot
namespace Bermuda.Spec.C20
open Bermuda Bermuda.Plot

def absR (q : Rat) : Rat := if q < 0 then -q else q

/-- `|a − b| ≤ tol · max(1, |a|, |b|)` -/
def approx (tol a b : Rat) : Bool :=
  decide (absR (a - b) ≤ tol * max 1 (max (absR a) (absR b)))

/-! ### what a statistic's NAME states -/

def digitVal (c : Char) : Option Nat :=
  if '0' ≤ c ∧ c ≤ '9' then some (c.toNat - '0'.toNat) else none

def digitsVal : List Char → Option Nat
  | [] => none
  | cs => cs.foldl (fun acc c => do let a ← acc; let d ← digitVal c; pure (10 * a + d)) (some 0)

/-- `q2_5 ↦ 2.5 % = 1/40`, `q80 ↦ 4/5`: `q<int>[_<decimals>]` read as a percentage -/
def parseLevel (name : String) : Option Rat :=
  match name.toList with
  | 'q' :: rest =>
    let ip := rest.takeWhile (· != '_')
    let fp := (rest.dropWhile (· != '_')).drop 1
    match digitsVal ip with
    | none => none
    | some i =>
      if fp.isEmpty then
        (if rest.contains '_' then none else some ((i : Rat) / 100))
      else match digitsVal fp with
        | none => none
        | some f => some (((i : Rat) + (f : Rat) / ((10 ^ fp.length : Nat) : Rat)) / 100)
  | _ => none

def minOf : List Rat → Rat
  | [] => 0
  | x :: xs => xs.foldl (fun a b => if b < a then b else a) x

def maxOf : List Rat → Rat
  | [] => 0
  | x :: xs => xs.foldl (fun a b => if a < b then b else a) x

/-- the statistic a field name states, of the sample `xs` -/
def statOf (xs : List Rat) (name : String) : Option SVal :=
  if name == "mean" then some (.exact (mean xs))
  else if name == "median" then some (.exact (median xs))
  else if name == "sd" then some (.sqrt (variance xs))
  else if name == "min" then some (.exact (minOf xs))
  else if name == "max" then some (.exact (maxOf xs))
  else (parseLevel name).map fun l => .exact (quantile xs l)

/-- the statistics a sample-valued summary must carry (property text: q2_5 … q97_5) -/
def requiredStats : List String :=
  ["mean", "median", "sd", "min", "max", "q2_5", "q5", "q10", "q20", "q50", "q80", "q90", "q95",
   "q97_5"]

/-- expected vs reported entry. A reported `sd` is a number `s` to be compared through its square. -/
def svalApprox (tol : Rat) (expected got : SVal) : Bool :=
  match expected, got with
  | .exact a, .exact b => approx tol a b
  | .sqrt v, .sqrt w => approx tol v w
  | .sqrt v, .exact s => decide (0 ≤ s) && approx (4 * tol) v (s * s)
  | .exact _, .sqrt _ => false

/-- a sample summary carries every required statistic, and every entry equals the statistic its
name states -/
def statsMatch (tol : Rat) (xs : List Rat) (stats : List (String × SVal)) : Bool :=
  requiredStats.all (fun n => (stats.lookup n).isSome) &&
  stats.all fun e => match statOf xs e.1 with
    | some v => svalApprox tol v e.2
    | none => false

def summaryMatches (tol : Rat) (mv : MV) (s : Summary) : Bool :=
  match mv with
  | .scalar q => s.stats.map (·.1) == ["mean"] && s.stats.all fun e => svalApprox tol (.exact q) e.2
  | .sample [x] => s.stats.map (·.1) == ["mean"] && s.stats.all fun e => svalApprox tol (.exact x) e.2
  | .sample xs => statsMatch tol xs s.stats

/-! ### what a metric's NAME states -/

inductive Kind where
  | ratio (loss : String)
  | pass (f : String)
  | ata (f : String)
  | ataIncr (f : String)
deriving DecidableEq, Repr

def table : List (String × Kind) := [
  ("paid_loss_ratio", .ratio "paid_loss"), ("reported_loss_ratio", .ratio "reported_loss"),
  ("incurred_loss_ratio", .ratio "incurred_loss"),
  ("paid_loss", .pass "paid_loss"), ("reported_loss", .pass "reported_loss"),
  ("incurred_loss", .pass "incurred_loss"), ("earned_premium", .pass "earned_premium"),
  ("reported_claims", .pass "reported_claims"),
  ("paid_ata", .ata "paid_loss"), ("reported_ata", .ata "reported_loss"),
  ("paid_incremental_ata", .ataIncr "paid_loss"),
  ("reported_incremental_ata", .ataIncr "reported_loss")]

def cellField (c : Cell) (k : String) : Option MV := readField (some c) k

def sameSlicePeriod (a b : Cell) : Bool := a.md == b.md && a.ps == b.ps && a.pe == b.pe

/-- the next evaluation of the same slice and period: among the cells of `t` with the same
metadata and period and a later evaluation date, the one evaluated first -/
def nextInSlice (t : List Cell) (c : Cell) : Option Cell :=
  (t.filter fun d => sameSlicePeriod c d && decide (c.ev < d.ev)).foldl
    (fun best d => match best with
      | none => some d
      | some b => if d.ev < b.ev then some d else some b) none

def ratio100 (c : Cell) (loss : String) : Option MV := do
  let l ← cellField c loss
  let p ← cellField c "earned_premium"
  let num ← MV.bin ratMul (.scalar 100) l
  MV.bin ratDiv num p

def ataOf (t : List Cell) (c : Cell) (f : String) : Option MV := do
  let n ← nextInSlice t c
  let a ← cellField n f
  let b ← cellField c f
  MV.bin ratDiv a b

def expected (t : List Cell) (c : Cell) : Kind → Option MV
  | .ratio loss => ratio100 c loss
  | .pass f => cellField c f
  | .ata f => ataOf t c f
  | .ataIncr f => do MV.bin ratSub (← ataOf t c f) (.scalar 1)

/-! ### the clauses -/

def all2 {α β} (f : α → β → Bool) : List α → List β → Bool
  | [], [] => true
  | a :: as, b :: bs => f a b && all2 f as bs
  | _, _ => false

/-- one record per cell, in cell order, carrying period, evaluation date and development lag -/
def onePerCell (tol : Rat) (t : List Cell) (recs : List Record) : Bool :=
  all2 (fun c r => r.ps == c.ps && r.pe == c.pe && r.ev == c.ev &&
    approx tol (devLagMonths c.pe c.ev) r.devLag) t recs

def kindSel (which : Kind → Bool) : List (String × Kind) := table.filter fun e => which e.2

/-- for the selected metrics: inputs present ⇒ the summary is there and carries the statistics its
names state -/
def valuesOk (tol : Rat) (sel : Kind → Bool) (t : List Cell) (recs : List Record) : Bool :=
  all2 (fun c r => (kindSel sel).all fun e =>
    match expected t c e.2, r.metrics.lookup e.1 with
    | some mv, some s => summaryMatches tol mv s
    | some _, none => false
    | none, _ => true) t recs

/-- absent inputs ⇒ no summary -/
def absentOk (t : List Cell) (recs : List Record) : Bool :=
  all2 (fun c r => table.all fun e =>
    match expected t c e.2, r.metrics.lookup e.1 with
    | none, some _ => false
    | _, _ => true) t recs

def Kind.isRatio : Kind → Bool | .ratio _ => true | _ => false
def Kind.isPass : Kind → Bool | .pass _ => true | _ => false
def Kind.isAta : Kind → Bool | .ata _ => true | .ataIncr _ => true | _ => false

def exactOf : SVal → Option Rat | .exact q => some q | .sqrt _ => none

/-- the quantile entries of a summary read by their NAMES: (stated level, value) -/
def namedQuantiles (s : Summary) : List (Rat × Rat) :=
  s.stats.filterMap fun e => do
    let l ← parseLevel e.1
    let v ← exactOf e.2
    pure (l, v)

/-- `a ≤ b` up to the tolerance -/
def leTol (tol a b : Rat) : Bool := decide (a ≤ b) || approx tol a b

/-- the quantile entries of a summary, read by their NAMES, are monotone in the stated level
(for every two of them: level ≤ level' ⇒ value ≤ value') and lie between `min` and `max` -/
def summaryMonotone (tol : Rat) (s : Summary) : Bool :=
  let qs := namedQuantiles s
  (qs.all fun p => qs.all fun p' => !decide (p.1 ≤ p'.1) || leTol tol p.2 p'.2) &&
  (match (s.stats.lookup "min").bind exactOf, (s.stats.lookup "max").bind exactOf with
   | some lo, some hi => qs.all fun p => leTol tol lo p.2 && leTol tol p.2 hi
   | _, _ => true)

def monotoneOk (tol : Rat) (recs : List Record) : Bool :=
  recs.all fun r => r.metrics.all fun e => summaryMonotone tol e.2

/-- the whole property on an (input, output) pair -/
def holds (tol : Rat) (t : List Cell) (recs : List Record) : Bool :=
  onePerCell tol t recs && valuesOk tol Kind.isRatio t recs && valuesOk tol Kind.isPass t recs &&
  valuesOk tol Kind.isAta t recs && absentOk t recs && monotoneOk tol recs

/-! ### the option `remove_empties` (records with their empty summaries) -/

def sameSet (a b : List String) : Bool := a.all b.contains && b.all a.contains

/-- the summary slots of one record: the non-empty summaries of the record are exactly its non-empty slots;
with `remove_empties` there is no empty slot, without it the key set is EVERY metric name of the table
(each once) -/
def entriesOk (removeEmpties : Bool) (r : RecordE) : Bool :=
  r.base.metrics == nonEmpty r.entries &&
  (if removeEmpties then r.entries.all (·.2.isSome)
   else sameSet (r.entries.map (·.1)) (table.map (·.1)) && r.entries.length == table.length)

/-- the tooltip is joined from the non-empty summaries whose field the cell holds, in record order -/
def tooltipOk (r : RecordE) : Bool :=
  r.tooltip == (r.entries.filter fun e => e.2.isSome && r.base.fields.contains e.1).map (·.1)

/-- the whole property on (option value, input, output): every clause of `holds` on the records (so: one
record per cell in cell order for BOTH option values), plus the slots and the tooltip sources -/
def holdsOpt (removeEmpties : Bool) (tol : Rat) (t : List Cell) (recs : List RecordE) : Bool :=
  holds tol t (recs.map (·.base)) && recs.all (entriesOk removeEmpties) && recs.all tooltipOk

/-! ### the option `flat` -/

/-- the `<metric>_<stat>` entries of a flat record, in record order, are the flattening (`Plot.flattenSummaries`:
key `metric ++ "_" ++ stat`) of the nested record's non-empty summaries — nothing lost, nothing added, no key of
one metric read as a statistic of another -/
def flatOk (r : RecordE) (flatEntries : List (String × SVal)) : Bool :=
  flattenSummaries r.base.metrics == flatEntries

/-! ### the option `keep_samples` -/

def entryApprox (tol : Rat) (expected got : MetricEntry) : Bool :=
  match expected, got with
  | .mean a, .mean b => approx tol a b
  | .samples d, .samples d' => d.map (·.1) == d'.map (·.1) && all2 (fun x y => approx tol x.2 y.2) d d'
  | _, _ => false

/-- the `metric` entry of every summary of the cell's record is what the flag says: with `keep_samples` and at least
two samples the dict {0: x₀, 1: x₁, …} of THAT cell's metric samples in order, otherwise the mean of the metric; an
entry exists exactly for the metrics whose inputs are present -/
def keptOk (tol : Rat) (keepSamples : Bool) (t : List Cell) (c : Cell) (ks : List (String × MetricEntry)) : Bool :=
  table.all fun e => match expected t c e.2, ks.lookup e.1 with
    | some mv, some g => entryApprox tol (metricEntry keepSamples mv) g
    | some _, none => false
    | none, some _ => false
    | none, none => true

end Bermuda.Spec.C20
