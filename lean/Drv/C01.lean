import Bermuda.Model.Json
import Bermuda.Model.Ops
import Bermuda.Model.AllOps
import Bermuda.Model.AllOps2
import Bermuda.Model.AllOps3
import Bermuda.Model.AllOpsOrder
import Bermuda.Spec.C01
open Lean Bermuda

def optInt? (j : Json) (k : String) : Except String (Option Int) :=
  match j.getObjVal? k with
  | .ok v => if v.isNull then .ok none else (jInt? v).map some
  | .error _ => .ok none

def optDate? (j : Json) (k : String) : Except String (Option Date) :=
  match j.getObjVal? k with
  | .ok v => optFromJson Date.fromJson v
  | .error _ => .ok none

def metaEditFromJson (j : Json) : Except String MetaEdit := do
  let attr ← (← j.getObjVal? "attr").getStr?
  let v ← j.getObjVal? "v"
  let s : Except String (Option String) := optFromJson (·.getStr?) v
  match attr with
  | "risk_basis" => return .riskBasis (← s)
  | "country" => return .country (← s)
  | "currency" => return .currency (← s)
  | "reinsurance_basis" => return .reinsuranceBasis (← s)
  | "loss_definition" => return .lossDefinition (← s)
  | "per_occurrence_limit" => return .limit (← optFromJson ratFromJson v)
  | k => return .detail k (← MVal.fromJson v)

def opFromJson (j : Json) : Except String Op := do
  match (← (← j.getObjVal? "op").getStr?) with
  | "slice" => return .slice (← optInt? j "i") (← optInt? j "j")
  | "sliceStep" => return .sliceStep (← optInt? j "i") (← optInt? j "j") (← jInt? (← j.getObjVal? "k"))
  | "removeStaticDetails" => return .removeStaticDetails
  | "add" => return .add (← cellsFromJson (← j.getObjVal? "other"))
  | "clip" => return .clip { minEval := ← optDate? j "minEval", maxEval := ← optDate? j "maxEval",
                             minPeriod := ← optDate? j "minPeriod", maxPeriod := ← optDate? j "maxPeriod" }
  | "filterMask" => return .filterMask (← (← (← j.getObjVal? "mask").getArr?).toList.mapM (·.getBool?))
  | "select" => return .select (← (← (← j.getObjVal? "keys").getArr?).toList.mapM (·.getStr?))
  | "deriveMetadata" => return .deriveMetadata (← metaEditFromJson j)
  | "replaceEval" => return .replaceEval (← Date.fromJson (← j.getObjVal? "d"))
  | "rightEdge" => return .rightEdge
  | o => throw s!"unknown op {o}"


/-! ### `Op2` (chains over all modelled operations, request op "chain2")

Argument names follow the drivers of the respective properties (C04 basis, C08 aggregate, C09 summarize,
C10 join family, C11 selection, C15 extension); operand triangles travel inline as cell lists. -/

def optField (j : Json) (k : String) : Option Json :=
  match j.getObjVal? k with
  | .ok v => if v.isNull then none else some v
  | .error _ => none

def strListJ (j : Json) : Except String (List String) := do
  (← j.getArr?).toList.mapM (·.getStr?)

def optStrListF (j : Json) (k : String) : Except String (Option (List String)) :=
  match optField j k with
  | some v => (strListJ v).map some
  | none => .ok none

def resOf (j : Json) (k : String) : Except String (Option (Int × String)) :=
  match optField j k with
  | some v => do
    let a ← v.getArr?
    if a.size != 2 then throw "resolution: want [quantity, unit]"
    return some (← jInt? a[0]!, ← a[1]!.getStr?)
  | none => .ok none

def dateOr (j : Json) (k : String) (dflt : Date) : Except String Date :=
  match optField j k with
  | some v => Date.fromJson v
  | none => .ok dflt

def optRatF (j : Json) (k : String) : Except String (Option Rat) :=
  match optField j k with
  | some v => (ratFromJson v).map some
  | none => .ok none

def op2FromJson (j : Json) : Except String Op2 := do
  match (← (← j.getObjVal? "op").getStr?) with
  | "toIncremental" => return .toIncremental
  | "toCumulative" => return .toCumulative
  | "aggregate" =>
    return .aggregate Transc.id {
      periodRes := ← resOf j "pres", evalRes := ← resOf j "eres",
      periodOrigin := ← dateOr j "porigin" ⟨1999, 12, 31⟩, evalOrigin := ← dateOr j "eorigin" ⟨1999, 12, 31⟩,
      prem := ← (← j.getObjVal? "prem").getBool? }
  | "summarize" => return .summarize Transc.id [] (← (← j.getObjVal? "prem").getBool?)
  | "merge" =>
    return .merge (JoinType.ofString? (← (← j.getObjVal? "ty").getStr?)) (← optStrListF j "on")
      (← cellsFromJson (← j.getObjVal? "b"))
  | "coalesce" =>
    return .coalesce (← (← (← j.getObjVal? "ts").getArr?).toList.mapM cellsFromJson)
  | "addStatics" =>
    return .addStatics (← cellsFromJson (← j.getObjVal? "b")) (← strListJ (← j.getObjVal? "statics"))
  | "periodMerge" =>
    let suffix ← match optField j "suffix" with
      | some v => (v.getStr?).map some
      | none => pure none
    return .periodMerge (← cellsFromJson (← j.getObjVal? "b")) suffix
  | "rightTri" =>
    let lags ← match optField j "lags" with
      | some v => (do let a ← v.getArr?; a.toList.mapM ratFromJson).map some
      | none => pure none
    return .makeRightTriangle lags (← (← j.getObjVal? "unit").getStr?)
  | "rightDiag" =>
    return .makeRightDiagonal (← (← (← j.getObjVal? "dates").getArr?).toList.mapM Date.fromJson)
      (← (← j.getObjVal? "hist").getBool?)
  | "fill" => return .fillForwardGaps (← optInt? j "res") (← (← j.getObjVal? "none").getBool?)
  | "backfill" =>
    return .backfill (← strListJ (← j.getObjVal? "statics")) (← optInt? j "res") (← jInt? (← j.getObjVal? "minLag"))
  | "clipFull" =>
    let unit ← match optField j "unit" with
      | some u => do pure (LagUnit.parse? (← u.getStr?))
      | none => pure (some LagUnit.month)
    return .clipFull { minEval := ← optDate? j "minEval", maxEval := ← optDate? j "maxEval",
                       minPeriod := ← optDate? j "minPeriod", maxPeriod := ← optDate? j "maxPeriod",
                       minDev := ← optRatF j "minDev", maxDev := ← optRatF j "maxDev", unit := unit }
  | "splitNth" => return .splitNth (← strListJ (← j.getObjVal? "keys")) (← (← j.getObjVal? "i").getNat?)
  | "sliceNth" => return .sliceNth (← (← j.getObjVal? "i").getNat?)
  | _ => return .base (← opFromJson j)

/-! ### `Op3` (request op "chain3"): expressions of `Fn.Ex` travel as JSON arrays

    ["c", pv]   pv = null | true | false | ["i",n] | ["f","n/d"] | ["s","…"] | ["d",[y,m,d]]
    ["ps"] ["pe"] ["ev"] ["prev"] ["m",attr] ["det",k] ["detget",k,pv] ["ldet",k] ["f",k] ["fget",k,pv]
    ["has",k] ["year",e] ["month",e] ["day",e] ["adddays",e,n] ["addmonths",e,n] ["daysbetween",a,b]
    ["devlag"] ["plen"] ["isnone",e] ["not",e] ["neg",e] ["bin",op,a,b] ["if",c,a,b]

the harness compiles the same tree to a Python lambda. -/

def pvalFromJson (j : Json) : Except String Fn.PVal := do
  if j.isNull then return .none
  match j with
  | .bool b => return .bool b
  | _ =>
    let a ← j.getArr?
    if a.size != 2 then throw "pval: want pair"
    match (← a[0]!.getStr?) with
    | "i" => return .int (← jInt? a[1]!)
    | "f" => return .flt (← ratFromJson a[1]!)
    | "s" => return .str (← a[1]!.getStr?)
    | "d" => return .date (← Date.fromJson a[1]!)
    | t => throw s!"pval: bad tag {t}"

def binOpOf : String → Except String Fn.BinOp
  | "+" => .ok .add | "-" => .ok .sub | "*" => .ok .mul | "/" => .ok .truediv | "//" => .ok .floordiv
  | "%" => .ok .mod | "<" => .ok .lt | "<=" => .ok .le | ">" => .ok .gt | ">=" => .ok .ge
  | "==" => .ok .eq | "!=" => .ok .ne | "and" => .ok .and | "or" => .ok .or
  | o => .error s!"bad operator {o}"

def mattrOf : String → Except String Fn.MAttr
  | "risk_basis" => .ok .riskBasis | "country" => .ok .country | "currency" => .ok .currency
  | "reinsurance_basis" => .ok .reinsuranceBasis | "loss_definition" => .ok .lossDefinition
  | "per_occurrence_limit" => .ok .limit
  | o => .error s!"bad metadata attribute {o}"

/-- an opaque callable given extensionally: `[[cell, value], …]` looked up by `(metadata, period_start,
period_end, evaluation_date)` of the argument cell; `null` (the implementation raised, no numbers are
known) is the callable that always raises -/
def tableFn (j : Json) : Except String Fn.CellFn := do
  if j.isNull then return fun _ => .error .other
  let rows ← (← j.getArr?).toList.mapM fun e => do
    let a ← e.getArr?
    if a.size != 2 then throw "table: want [cell, value]"
    let c ← Cell.fromJson a[0]!
    return ((c.md, c.ps, c.pe, c.ev), Fn.ofVal (← Val.fromJson a[1]!))
  return fun c =>
    match rows.find? (fun r => r.1 == (c.md, c.ps, c.pe, c.ev)) with
    | some r => .ok r.2
    | none => .error .keyError     -- the implementation has no number for this cell: NOT a bound of the model

/-- `{name: table, …}` as a function of the name -/
def tablesFn (j : Json) : Except String (String → Fn.CellFn) := do
  if j.isNull then return fun _ _ => .error .other
  let o ← j.getObj?
  let ts ← o.toList.mapM fun (k, v) => do return (k, ← tableFn v)
  return fun name =>
    match ts.find? (fun r => r.1 == name) with
    | some r => r.2
    | none => fun _ => .error .keyError

partial def exFromJson (j : Json) : Except String Fn.Ex := do
  let a ← j.getArr?
  if a.size == 0 then throw "ex: empty"
  let tag ← a[0]!.getStr?
  let arg (i : Nat) : Except String Json := if i < a.size then .ok a[i]! else .error s!"ex {tag}: short"
  match tag with
  | "c" => return .const (← pvalFromJson (← arg 1))
  | "table" => return .opaque (← tableFn (← arg 1))
  | "ps" => return .cattr .periodStart
  | "pe" => return .cattr .periodEnd
  | "ev" => return .cattr .evaluationDate
  | "prev" => return .cattr .prevEvaluationDate
  | "m" => return .mattr (← mattrOf (← (← arg 1).getStr?))
  | "det" => return .detail (← (← arg 1).getStr?)
  | "detget" => return .detailGet (← (← arg 1).getStr?) (← pvalFromJson (← arg 2))
  | "ldet" => return .lossDetail (← (← arg 1).getStr?)
  | "f" => return .field (← (← arg 1).getStr?)
  | "fget" => return .fieldGet (← (← arg 1).getStr?) (← pvalFromJson (← arg 2))
  | "has" => return .hasField (← (← arg 1).getStr?)
  | "year" => return .year (← exFromJson (← arg 1))
  | "month" => return .month (← exFromJson (← arg 1))
  | "day" => return .day (← exFromJson (← arg 1))
  | "adddays" => return .addDays (← exFromJson (← arg 1)) (← exFromJson (← arg 2))
  | "addmonths" => return .addMonths (← exFromJson (← arg 1)) (← exFromJson (← arg 2))
  | "daysbetween" => return .daysBetween (← exFromJson (← arg 1)) (← exFromJson (← arg 2))
  | "devlag" => return .devLag
  | "plen" => return .periodLength
  | "isnone" => return .isNone (← exFromJson (← arg 1))
  | "not" => return .not (← exFromJson (← arg 1))
  | "neg" => return .neg (← exFromJson (← arg 1))
  | "bin" => return .bin (← binOpOf (← (← arg 1).getStr?)) (← exFromJson (← arg 2)) (← exFromJson (← arg 3))
  | "if" => return .ite (← exFromJson (← arg 1)) (← exFromJson (← arg 2)) (← exFromJson (← arg 3))
  | t => throw s!"ex: bad tag {t}"

def namedExs (j : Json) : Except String (List (String × Fn.Ex)) := do
  (← j.getArr?).toList.mapM fun e => do
    let a ← e.getArr?
    if a.size != 2 then throw "definition: want [name, ex]"
    return (← a[0]!.getStr?, ← exFromJson a[1]!)

def rdefFromJson (j : Json) : Except String Fn.RDef := do
  match (← (← j.getObjVal? "name").getStr?) with
  | "period_start" => return .periodStart (← exFromJson (← j.getObjVal? "e"))
  | "period_end" => return .periodEnd (← exFromJson (← j.getObjVal? "e"))
  | "evaluation_date" => return .evaluationDate (← exFromJson (← j.getObjVal? "e"))
  | "prev_evaluation_date" => return .prevEvaluationDate (← exFromJson (← j.getObjVal? "e"))
  | "values" => return .values (← (← j.getObjVal? "spread").getBool?) (← namedExs (← j.getObjVal? "items"))
  | "metadata" => return .metadata (← Metadata.fromJson (← j.getObjVal? "m"))
  | _ => return .unknown (← exFromJson (← j.getObjVal? "e"))

def op3FromJson (j : Json) : Except String Op3 := do
  match (← (← j.getObjVal? "op").getStr?) with
  | "deriveFields" => return .deriveFields (← namedExs (← j.getObjVal? "defs"))
  | "deriveMetadataFn" => return .deriveMetadataFn (← namedExs (← j.getObjVal? "defs"))
  | "replaceFn" => return .replaceFn (← (← (← j.getObjVal? "defs").getArr?).toList.mapM rdefFromJson)
  | "filterFn" => return .filterFn (← exFromJson (← j.getObjVal? "pred"))
  | "union" => return .union (← cellsFromJson (← j.getObjVal? "b"))
  | "inter" => return .inter (← cellsFromJson (← j.getObjVal? "b"))
  | "diff" => return .diff (← cellsFromJson (← j.getObjVal? "b"))
  | "symdiff" => return .symdiff (← cellsFromJson (← j.getObjVal? "b"))
  | "sum" => return .sum (← (← (← j.getObjVal? "ts").getArr?).toList.mapM cellsFromJson)
  | "cellAt" => return .cellAt (← jInt? (← j.getObjVal? "i"))
  | "loosePeriodMerge" =>
    let suffix ← match optField j "suffix" with
      | some v => (v.getStr?).map some
      | none => pure none
    return .loosePeriodMerge (← cellsFromJson (← j.getObjVal? "b")) suffix
  | "shiftOrigin" => return .shiftOrigin (← cellsFromJson (← j.getObjVal? "b"))
  | "wideRoundTrip" =>
    return .wideRoundTrip (← strListJ (← j.getObjVal? "field_cols")) (← strListJ (← j.getObjVal? "detail_cols"))
      (← strListJ (← j.getObjVal? "loss_detail_cols"))
  | "longRoundTrip" => return .longRoundTrip (← strListJ (← j.getObjVal? "loss_detail_cols"))
  | "arrayRoundTrip" =>
    return .arrayRoundTrip (← (← j.getObjVal? "field").getStr?) (← Metadata.fromJson (← j.getObjVal? "md"))
      (← optInt? j "res")
  | "matrixRoundTrip" => return .matrixRoundTrip
  | "dropOffDiagonals" => return .dropOffDiagonals
  | "toSlice" => return .toSlice
  | "sliceToTriangle" => return .sliceToTriangle
  | "makePredTriangleWithInit" =>
    let pred ← match optField j "pred" with
      | some v => (cellsFromJson v).map some
      | none => pure none
    return .makePredTriangleWithInit { pred := pred, maxDevLag := ← resOf j "maxDevLag", evalRes := ← resOf j "evalRes",
                                       maxEval := ← optDate? j "maxEval" }
  | "disaggDev" =>
    return .disaggregateDevelopment { res := ← jInt? (← j.getObjVal? "res"), fields := ← optStrListF j "fields",
                                      extrapolate := ← (← j.getObjVal? "extrapolate").getBool? }
      (← tablesFn (← j.getObjVal? "vals"))
  | "disagg" =>
    let weights ← match optField j "weights" with
      | some v => do
        let a ← v.getArr?
        pure (some (← a.toList.mapM fun x => do
          match x.getInt? with
          | .ok i => pure (Units.Num.int i)
          | .error _ => pure (Units.Num.flt (← ratFromJson x))))
      | none => pure none
    return .disaggregate (← (← j.getObjVal? "resExp").getNat?) weights
      { res := ← jInt? (← j.getObjVal? "res"), fields := ← optStrListF j "fields",
        extrapolate := ← (← j.getObjVal? "extrapolate").getBool? }
      (← tablesFn (← j.getObjVal? "vals"))
  | "weightGeometricDecay" =>
    let fields ← match optField j "fields" with
      | none => pure Fn.FieldsArg.none
      | some (.str s) => pure (Fn.FieldsArg.one s)
      | some v => (strListJ v).map Fn.FieldsArg.many
    let a : Fn.DecayArgs := {
      factorIsFloat := ← (← j.getObjVal? "isFloat").getBool?, factor := ← ratFromJson (← j.getObjVal? "factor"),
      basis := ← (← j.getObjVal? "basis").getStr?, fields := fields,
      weightAsField := ← (← j.getObjVal? "asField").getBool? }
    return .weightGeometricDecay a (← tableFn (← j.getObjVal? "w")) (← tablesFn (← j.getObjVal? "scaled"))
  | "paidBs" =>
    return .paidBsAdjustment (← cellsFromJson (← j.getObjVal? "ult")) (← tableFn (← j.getObjVal? "dr"))
      (← tableFn (← j.getObjVal? "pl"))
  | "reportedBs" =>
    let method ← match optField j "method" with
      | some v => (v.getStr?).map some
      | none => pure none
    let trendOk ← (← j.getObjVal? "trendOk").getBool?
    return .reportedBsAdjustment method (← tablesFn (← j.getObjVal? "first")) (← tablesFn (← j.getObjVal? "second"))
      (if trendOk then .ok () else .error .other)
  | _ => return .base (← op2FromJson j)

/-! ### `Op4` (request op "chain4") -/

def optDateOf (j : Json) : Except String (Option Date) := optFromJson Date.fromJson j

def idxValFromJson (j : Json) : Except String IdxVal := do
  let a ← j.getArr?
  if a.size == 0 then throw "idxval: empty"
  match (← a[0]!.getStr?) with
  | "date" => return .date (← Date.fromJson a[1]!)
  | "slice" => return .slice (← optDateOf a[1]!) (← optDateOf a[2]!)
  | "md" => return .md (← Metadata.fromJson a[1]!)
  | "falsy" => return .falsy
  | _ => return .junk

def indexFromJson (j : Json) : Except String Index := do
  match (← (← j.getObjVal? "kind").getStr?) with
  | "int" => return .int (← jInt? (← j.getObjVal? "i"))
  | "slice" => return .slice (← optInt? j "i") (← optInt? j "j") (← optInt? j "k")
  | "tuple" => return .tuple (← (← (← j.getObjVal? "xs").getArr?).toList.mapM idxValFromJson)
  | _ => return .noLen

/-- `[quantity, unit]` with a possibly fractional quantity -/
def qtyOf (j : Json) (k : String) : Except String (Option (Rat × String)) :=
  match optField j k with
  | some v => do
    let a ← v.getArr?
    if a.size != 2 then throw "quantity: want [q, unit]"
    return some (← ratFromJson a[0]!, ← a[1]!.getStr?)
  | none => .ok none

def errOf : String → Err
  | "KeyError" => .keyError | "IndexError" => .indexError | "ValueError" => .valueError
  | "TypeError" => .typeError | _ => .other

/-- the `statics_fn` of the harness: `null` = `None`; else constant values, raising `raise` for cells whose
period starts in month `skipMonth` -/
def staticsFnOf (j : Json) : Except String Fn.StaticsFn := do
  if j.isNull then return none
  let vals ← dictFromJson Val.fromJson (← j.getObjVal? "vals")
  let skip ← optInt? j "skipMonth"
  let e := match optField j "raise" with
    | some (.str s) => errOf s
    | _ => Err.keyError
  return some fun ob => if skip == some (ob.ps.m : Int) then .error e else .ok vals

def op4FromJson (j : Json) : Except String Op4 := do
  match (← (← j.getObjVal? "op").getStr?) with
  | "rightEdgeStatics" =>
    return .rightEdgeStatics (← optDate? j "evaluation") (← optInt? j "res") (← Metadata.fromJson (← j.getObjVal? "md"))
  | "arrayFullRoundTrip" =>
    return .arrayFullRoundTrip (← (← j.getObjVal? "field").getStr?) (← optInt? j "res") (← optInt? j "evalRes")
      (← (← j.getObjVal? "fromEnd").getBool?) (← Metadata.fromJson (← j.getObjVal? "md"))
  | "arrayBuilderRoundTrip" =>
    return .arrayBuilderRoundTrip (← strListJ (← j.getObjVal? "fields")) (← optInt? j "res") (← optInt? j "evalRes")
      (← (← j.getObjVal? "fromEnd").getBool?) (← Metadata.fromJson (← j.getObjVal? "md"))
  | "richRoundTrip" => return .richRoundTrip (← optInt? j "evalRes") (← optStrListF j "fields")
  | "matrixOptRoundTrip" => return .matrixOptRoundTrip (← optInt? j "evalRes") (← optStrListF j "fields")
  | "binaryRoundTrip" =>
    let ext := match optField j "ext" with
      | some (.str ".trib") => Codec.Ext.trib
      | some (.str ".tribc") => Codec.Ext.tribc
      | _ => Codec.Ext.other
    let rflag ← match optField j "rflag" with
      | some v => (v.getBool?).map some
      | none => pure none
    return .binaryRoundTrip ext (← (← j.getObjVal? "wflag").getBool?) rflag
  | "getItemAny" => return .getItemAny (← indexFromJson (← j.getObjVal? "index"))
  | "sliceGetItemAny" => return .sliceGetItemAny (← indexFromJson (← j.getObjVal? "index"))
  | "makePredTriangle" =>
    let some expRes ← qtyOf j "expRes" | throw "expRes"
    let some evalRes ← qtyOf j "evalRes" | throw "evalRes"
    let a : Fn.PredArgs := {
      metas := ← (← (← j.getObjVal? "metas").getArr?).toList.mapM Metadata.fromJson,
      minPeriod := ← Date.fromJson (← j.getObjVal? "minPeriod"), maxPeriod := ← Date.fromJson (← j.getObjVal? "maxPeriod"),
      expRes := expRes, evalRes := evalRes, expOrigin := ← optDate? j "expOrigin",
      minDevLag := ← qtyOf j "minDevLag", maxDevLag := ← qtyOf j "maxDevLag",
      minEval := ← optDate? j "minEval", maxEval := ← optDate? j "maxEval",
      isIncremental := ← (← j.getObjVal? "inc").getBool? }
    return .makePredTriangle a (← staticsFnOf (← j.getObjVal? "statics"))
  | "makePredTriangleComplement" =>
    return .makePredTriangleComplement { staticFields := ← optStrListF j "staticFields", maxDevLag := ← optRatF j "maxDevLag",
                                         evalResOverride := ← optInt? j "evalResOverride" }
  | _ => return .base (← op3FromJson j)

/-- Spec verdicts on an implementation output (absent when the implementation raised) -/
def specJson (j : Json) : Except String Json := do
  match j.getObjVal? "impl" with
  | .ok v =>
    if v.isNull then return Json.null
    let t ← cellsFromJson v
    return Json.mkObj [("canonical", Spec.isCanonical t), ("contiguous", Spec.slicesContiguous t),
                       ("sliceOrder", Spec.sliceOrder t)]
  | .error _ => return Json.null

def handle (j : Json) : Except String Json := do
  let op ← (← j.getObjVal? "op").getStr?
  match op with
  | "construct" =>
    let cells ← cellsFromJson (← j.getObjVal? "cells")
    return Json.mkObj [("model", exceptToJson cellsToJson (Triangle.ofCells cells)), ("spec", ← specJson j)]
  | "sortMeta" =>
    let ms ← (← (← j.getObjVal? "metas").getArr?).toList.mapM Metadata.fromJson
    let sorted := ms.mergeSort (fun a b => Metadata.cmp a b != .gt)
    let cmps := ms.map fun a => ms.map fun b => (Metadata.cmp a b == .lt)
    return Json.mkObj [("model", Json.arr (sorted.map Metadata.toJson).toArray),
                       ("lt", Json.arr (cmps.map fun r => Json.arr (r.map Json.bool).toArray).toArray)]
  | "spec" =>
    return Json.mkObj [("spec", ← specJson j)]
  | "ltPartial" =>
    -- `Metadata.__lt__` as the partial comparison it is: "lt" / "eq" / "gt" / "TypeError" for every ordered pair,
    -- the decidable domain predicate, and (for one cell per metadata) the constructor's domain predicate
    let ms ← (← (← j.getObjVal? "metas").getArr?).toList.mapM Metadata.fromJson
    let enc : Except Err Ordering → Json
      | .ok .lt => "lt" | .ok .eq => "eq" | .ok .gt => "gt" | .error e => Json.str e.name
    let cells : List Cell := ms.map fun m => { ps := ⟨2020, 1, 1⟩, pe := ⟨2020, 12, 31⟩, ev := ⟨2020, 12, 31⟩, md := m }
    return Json.mkObj [
      ("cmp", Json.arr (ms.map fun a => Json.arr (ms.map fun b => enc (Metadata.cmp? a b)).toArray).toArray),
      ("comparable", Json.arr (ms.map fun a => Json.arr (ms.map fun b => Json.bool (a.detailKindsComparable b)).toArray).toArray),
      ("cellsComparable", Json.bool (cellsComparable cells))]
  | "chain" =>
    let cells ← cellsFromJson (← j.getObjVal? "cells")
    let ops ← (← (← j.getObjVal? "ops").getArr?).toList.mapM opFromJson
    let r := match Triangle.ofCells cells with
      | .ok t => run t ops
      | .error e => .error e
    return Json.mkObj [("model", exceptToJson cellsToJson r), ("spec", ← specJson j)]
  | "chain2" =>
    let cells ← cellsFromJson (← j.getObjVal? "cells")
    let ops ← (← (← j.getObjVal? "ops").getArr?).toList.mapM op2FromJson
    let r := match Triangle.ofCells cells with
      | .ok t => run2 t ops
      | .error e => .error e
    return Json.mkObj [("model", exceptToJson cellsToJson r), ("spec", ← specJson j)]
  | "cellAt" =>
    let cells ← cellsFromJson (← j.getObjVal? "cells")
    return Json.mkObj [("model", exceptToJson Cell.toJson (Fn.cellAt cells (← jInt? (← j.getObjVal? "i"))))]
  | "chain4" =>
    let cells ← cellsFromJson (← j.getObjVal? "cells")
    let ops ← (← (← j.getObjVal? "ops").getArr?).toList.mapM op4FromJson
    let r := match Triangle.ofCells cells with
      | .ok t => run4 t ops
      | .error e => .error e
    return Json.mkObj [("model", exceptToJson cellsToJson r), ("spec", ← specJson j)]
  | "item" =>
    -- `t[index]` / `triangle_to_slice(t)[index]`: the returned object itself (triangle or cell)
    let cells ← cellsFromJson (← j.getObjVal? "cells")
    let idx ← indexFromJson (← j.getObjVal? "index")
    let r := if (← (← j.getObjVal? "slice").getBool?) then Fn.sliceGetItemAny cells idx else Triangle.getItemAny cells idx
    let enc : List Cell ⊕ Cell → Json
      | .inl t => Json.mkObj [("tri", cellsToJson t)]
      | .inr c => Json.mkObj [("cell", c.toJson)]
    return Json.mkObj [("model", exceptToJson enc r)]
  | "chain3" =>
    let cells ← cellsFromJson (← j.getObjVal? "cells")
    let ops ← (← (← j.getObjVal? "ops").getArr?).toList.mapM op3FromJson
    let r := match Triangle.ofCells cells with
      | .ok t => run3 t ops
      | .error e => .error e
    return Json.mkObj [("model", exceptToJson cellsToJson r), ("spec", ← specJson j)]
  | o => throw s!"unknown op {o}"

def main : IO Unit := serve handle
