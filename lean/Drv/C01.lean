import Bermuda.Model.Json
import Bermuda.Model.Ops
import Bermuda.Model.AllOps
import Bermuda.Spec.C01
open Lean Bermuda

def optInt? (j : Json) (k : String) : Except String (Option Int) :=
  match j.getObjVal? k with
  | .ok v => if v.isNull then .ok none else (jInt? v).map some
  | .error _ => .ok none

def optDate? (j : Json) (k : String) : Except String (Option Date) :=
  match j.getObjVal? k with
  | .ok v => optFromJson Date.fromJson v
  | .error _ => .ok none

def metaEditFromJson (j : Json) : Except String MetaEdit := do
  let attr ← (← j.getObjVal? "attr").getStr?
  let v ← j.getObjVal? "v"
  let s : Except String (Option String) := optFromJson (·.getStr?) v
  match attr with
  | "risk_basis" => return .riskBasis (← s)
  | "country" => return .country (← s)
  | "currency" => return .currency (← s)
  | "reinsurance_basis" => return .reinsuranceBasis (← s)
  | "loss_definition" => return .lossDefinition (← s)
  | "per_occurrence_limit" => return .limit (← optFromJson ratFromJson v)
  | k => return .detail k (← MVal.fromJson v)

def opFromJson (j : Json) : Except String Op := do
  match (← (← j.getObjVal? "op").getStr?) with
  | "slice" => return .slice (← optInt? j "i") (← optInt? j "j")
  | "sliceStep" => return .sliceStep (← optInt? j "i") (← optInt? j "j") (← jInt? (← j.getObjVal? "k"))
  | "removeStaticDetails" => return .removeStaticDetails
  | "add" => return .add (← cellsFromJson (← j.getObjVal? "other"))
  | "clip" => return .clip { minEval := ← optDate? j "minEval", maxEval := ← optDate? j "maxEval",
                             minPeriod := ← optDate? j "minPeriod", maxPeriod := ← optDate? j "maxPeriod" }
  | "filterMask" => return .filterMask (← (← (← j.getObjVal? "mask").getArr?).toList.mapM (·.getBool?))
  | "select" => return .select (← (← (← j.getObjVal? "keys").getArr?).toList.mapM (·.getStr?))
  | "deriveMetadata" => return .deriveMetadata (← metaEditFromJson j)
  | "replaceEval" => return .replaceEval (← Date.fromJson (← j.getObjVal? "d"))
  | "rightEdge" => return .rightEdge
  | o => throw s!"unknown op {o}"


/-! ### `Op2` (chains over all modelled operations, request op "chain2")

Argument names follow the drivers of the respective properties (C04 basis, C08 aggregate, C09 summarize,
C10 join family, C11 selection, C15 extension); operand triangles travel inline as cell lists. -/

def optField (j : Json) (k : String) : Option Json :=
  match j.getObjVal? k with
  | .ok v => if v.isNull then none else some v
  | .error _ => none

def strListJ (j : Json) : Except String (List String) := do
  (← j.getArr?).toList.mapM (·.getStr?)

def optStrListF (j : Json) (k : String) : Except String (Option (List String)) :=
  match optField j k with
  | some v => (strListJ v).map some
  | none => .ok none

def resOf (j : Json) (k : String) : Except String (Option (Int × String)) :=
  match optField j k with
  | some v => do
    let a ← v.getArr?
    if a.size != 2 then throw "resolution: want [quantity, unit]"
    return some (← jInt? a[0]!, ← a[1]!.getStr?)
  | none => .ok none

def dateOr (j : Json) (k : String) (dflt : Date) : Except String Date :=
  match optField j k with
  | some v => Date.fromJson v
  | none => .ok dflt

def optRatF (j : Json) (k : String) : Except String (Option Rat) :=
  match optField j k with
  | some v => (ratFromJson v).map some
  | none => .ok none

def op2FromJson (j : Json) : Except String Op2 := do
  match (← (← j.getObjVal? "op").getStr?) with
  | "toIncremental" => return .toIncremental
  | "toCumulative" => return .toCumulative
  | "aggregate" =>
    return .aggregate Transc.id {
      periodRes := ← resOf j "pres", evalRes := ← resOf j "eres",
      periodOrigin := ← dateOr j "porigin" ⟨1999, 12, 31⟩, evalOrigin := ← dateOr j "eorigin" ⟨1999, 12, 31⟩,
      prem := ← (← j.getObjVal? "prem").getBool? }
  | "summarize" => return .summarize Transc.id [] (← (← j.getObjVal? "prem").getBool?)
  | "merge" =>
    return .merge (JoinType.ofString? (← (← j.getObjVal? "ty").getStr?)) (← optStrListF j "on")
      (← cellsFromJson (← j.getObjVal? "b"))
  | "coalesce" =>
    return .coalesce (← (← (← j.getObjVal? "ts").getArr?).toList.mapM cellsFromJson)
  | "addStatics" =>
    return .addStatics (← cellsFromJson (← j.getObjVal? "b")) (← strListJ (← j.getObjVal? "statics"))
  | "periodMerge" =>
    let suffix ← match optField j "suffix" with
      | some v => (v.getStr?).map some
      | none => pure none
    return .periodMerge (← cellsFromJson (← j.getObjVal? "b")) suffix
  | "rightTri" =>
    let lags ← match optField j "lags" with
      | some v => (do let a ← v.getArr?; a.toList.mapM ratFromJson).map some
      | none => pure none
    return .makeRightTriangle lags (← (← j.getObjVal? "unit").getStr?)
  | "rightDiag" =>
    return .makeRightDiagonal (← (← (← j.getObjVal? "dates").getArr?).toList.mapM Date.fromJson)
      (← (← j.getObjVal? "hist").getBool?)
  | "fill" => return .fillForwardGaps (← optInt? j "res") (← (← j.getObjVal? "none").getBool?)
  | "backfill" =>
    return .backfill (← strListJ (← j.getObjVal? "statics")) (← optInt? j "res") (← jInt? (← j.getObjVal? "minLag"))
  | "clipFull" =>
    let unit ← match optField j "unit" with
      | some u => do pure (LagUnit.parse? (← u.getStr?))
      | none => pure (some LagUnit.month)
    return .clipFull { minEval := ← optDate? j "minEval", maxEval := ← optDate? j "maxEval",
                       minPeriod := ← optDate? j "minPeriod", maxPeriod := ← optDate? j "maxPeriod",
                       minDev := ← optRatF j "minDev", maxDev := ← optRatF j "maxDev", unit := unit }
  | "splitNth" => return .splitNth (← strListJ (← j.getObjVal? "keys")) (← (← j.getObjVal? "i").getNat?)
  | "sliceNth" => return .sliceNth (← (← j.getObjVal? "i").getNat?)
  | _ => return .base (← opFromJson j)

/-- Spec verdicts on an implementation output (absent when the implementation raised) -/
def specJson (j : Json) : Except String Json := do
  match j.getObjVal? "impl" with
  | .ok v =>
    if v.isNull then return Json.null
    let t ← cellsFromJson v
    return Json.mkObj [("canonical", Spec.isCanonical t), ("contiguous", Spec.slicesContiguous t),
                       ("sliceOrder", Spec.sliceOrder t)]
  | .error _ => return Json.null

def handle (j : Json) : Except String Json := do
  let op ← (← j.getObjVal? "op").getStr?
  match op with
  | "construct" =>
    let cells ← cellsFromJson (← j.getObjVal? "cells")
    return Json.mkObj [("model", exceptToJson cellsToJson (Triangle.ofCells cells)), ("spec", ← specJson j)]
  | "sortMeta" =>
    let ms ← (← (← j.getObjVal? "metas").getArr?).toList.mapM Metadata.fromJson
    let sorted := ms.mergeSort (fun a b => Metadata.cmp a b != .gt)
    let cmps := ms.map fun a => ms.map fun b => (Metadata.cmp a b == .lt)
    return Json.mkObj [("model", Json.arr (sorted.map Metadata.toJson).toArray),
                       ("lt", Json.arr (cmps.map fun r => Json.arr (r.map Json.bool).toArray).toArray)]
  | "spec" =>
    return Json.mkObj [("spec", ← specJson j)]
  | "chain" =>
    let cells ← cellsFromJson (← j.getObjVal? "cells")
    let ops ← (← (← j.getObjVal? "ops").getArr?).toList.mapM opFromJson
    let r := match Triangle.ofCells cells with
      | .ok t => run t ops
      | .error e => .error e
    return Json.mkObj [("model", exceptToJson cellsToJson r), ("spec", ← specJson j)]
  | "chain2" =>
    let cells ← cellsFromJson (← j.getObjVal? "cells")
    let ops ← (← (← j.getObjVal? "ops").getArr?).toList.mapM op2FromJson
    let r := match Triangle.ofCells cells with
      | .ok t => run2 t ops
      | .error e => .error e
    return Json.mkObj [("model", exceptToJson cellsToJson r), ("spec", ← specJson j)]
  | o => throw s!"unknown op {o}"

def main : IO Unit := serve handle
