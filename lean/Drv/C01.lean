import Bermuda.Model.Json
import Bermuda.Model.Ops
import Bermuda.Spec.C01
open Lean Bermuda

def optInt? (j : Json) (k : String) : Except String (Option Int) :=
  match j.getObjVal? k with
  | .ok v => if v.isNull then .ok none else (jInt? v).map some
  | .error _ => .ok none

def optDate? (j : Json) (k : String) : Except String (Option Date) :=
  match j.getObjVal? k with
  | .ok v => optFromJson Date.fromJson v
  | .error _ => .ok none

def metaEditFromJson (j : Json) : Except String MetaEdit := do
  let attr ← (← j.getObjVal? "attr").getStr?
  let v ← j.getObjVal? "v"
  let s : Except String (Option String) := optFromJson (·.getStr?) v
  match attr with
  | "risk_basis" => return .riskBasis (← s)
  | "country" => return .country (← s)
  | "currency" => return .currency (← s)
  | "reinsurance_basis" => return .reinsuranceBasis (← s)
  | "loss_definition" => return .lossDefinition (← s)
  | "per_occurrence_limit" => return .limit (← optFromJson ratFromJson v)
  | k => return .detail k (← MVal.fromJson v)

def opFromJson (j : Json) : Except String Op := do
  match (← (← j.getObjVal? "op").getStr?) with
  | "slice" => return .slice (← optInt? j "i") (← optInt? j "j")
  | "sliceStep" => return .sliceStep (← optInt? j "i") (← optInt? j "j") (← jInt? (← j.getObjVal? "k"))
  | "removeStaticDetails" => return .removeStaticDetails
  | "add" => return .add (← cellsFromJson (← j.getObjVal? "other"))
  | "clip" => return .clip { minEval := ← optDate? j "minEval", maxEval := ← optDate? j "maxEval",
                             minPeriod := ← optDate? j "minPeriod", maxPeriod := ← optDate? j "maxPeriod" }
  | "filterMask" => return .filterMask (← (← (← j.getObjVal? "mask").getArr?).toList.mapM (·.getBool?))
  | "select" => return .select (← (← (← j.getObjVal? "keys").getArr?).toList.mapM (·.getStr?))
  | "deriveMetadata" => return .deriveMetadata (← metaEditFromJson j)
  | "replaceEval" => return .replaceEval (← Date.fromJson (← j.getObjVal? "d"))
  | "rightEdge" => return .rightEdge
  | o => throw s!"unknown op {o}"

/-- Spec verdicts on an implementation output (absent when the implementation raised) -/
def specJson (j : Json) : Except String Json := do
  match j.getObjVal? "impl" with
  | .ok v =>
    if v.isNull then return Json.null
    let t ← cellsFromJson v
    return Json.mkObj [("canonical", Spec.isCanonical t), ("contiguous", Spec.slicesContiguous t),
                       ("sliceOrder", Spec.sliceOrder t)]
  | .error _ => return Json.null

def handle (j : Json) : Except String Json := do
  let op ← (← j.getObjVal? "op").getStr?
  match op with
  | "construct" =>
    let cells ← cellsFromJson (← j.getObjVal? "cells")
    return Json.mkObj [("model", exceptToJson cellsToJson (Triangle.ofCells cells)), ("spec", ← specJson j)]
  | "sortMeta" =>
    let ms ← (← (← j.getObjVal? "metas").getArr?).toList.mapM Metadata.fromJson
    let sorted := ms.mergeSort (fun a b => Metadata.cmp a b != .gt)
    let cmps := ms.map fun a => ms.map fun b => (Metadata.cmp a b == .lt)
    return Json.mkObj [("model", Json.arr (sorted.map Metadata.toJson).toArray),
                       ("lt", Json.arr (cmps.map fun r => Json.arr (r.map Json.bool).toArray).toArray)]
  | "spec" =>
    return Json.mkObj [("spec", ← specJson j)]
  | "chain" =>
    let cells ← cellsFromJson (← j.getObjVal? "cells")
    let ops ← (← (← j.getObjVal? "ops").getArr?).toList.mapM opFromJson
    let r := match Triangle.ofCells cells with
      | .ok t => run t ops
      | .error e => .error e
    return Json.mkObj [("model", exceptToJson cellsToJson r), ("spec", ← specJson j)]
  | o => throw s!"unknown op {o}"

def main : IO Unit := serve handle
