-- driver stub for C02: replaced by the real line-protocol driver
def main : IO Unit := pure ()
