import Bermuda.Model.Json
import Bermuda.Model.Eq
import Bermuda.Spec.C02
open Lean Bermuda

/-!
Line-protocol driver of C02.  One request = one *family* of triangles over a pool of cells:

  {"op":"family","pool":[cell..],"tris":[[poolIdx..]..],"pairs":[[i,j]..] | "all",
   "impl":{"eq":[b|null..],"hashEq":[..],"le":[..],"disj":[..],"inter":[[poolIdx..]|null..],"diff":[..],"union":[..],"xor":[..]},
   "mems":[[poolIdx,triIdx]..],"implMem":[b|null..],
   "cellPairs":[[poolIdx,poolIdx]..],"implCellEq":[..],"implCellHashEq":[..],
   "metas":[meta..],"metaPairs":[[i,j]..],"implMetaEq":[..],"implMetaHashEq":[..]}

Answer: {"wf":bool,"model":{..same shapes..},"spec":{clause:[b|null..]}}; a spec entry is null where
the implementation gave no answer (it raised), true/false otherwise.
-/

def optBoolArr (j : Json) (k : String) : Except String (Array (Option Bool)) :=
  match j.getObjVal? k with
  | .ok v => do
    (← v.getArr?).mapM fun e => if e.isNull then pure none else (e.getBool?).map some
  | .error _ => .ok #[]

def natPairs (j : Json) : Except String (Array (Nat × Nat)) := do
  (← j.getArr?).mapM fun e => do
    let a ← e.getArr?
    if a.size != 2 then throw "pair: want [i,j]"
    return (← a[0]!.getNat?, ← a[1]!.getNat?)

def natList (j : Json) : Except String (List Nat) := do
  (← j.getArr?).toList.mapM (·.getNat?)

def optIdxLists (j : Json) (k : String) : Except String (Array (Option (List Nat))) :=
  match j.getObjVal? k with
  | .ok v => do
    (← v.getArr?).mapM fun e => if e.isNull then pure none else (natList e).map some
  | .error _ => .ok #[]

def optB : Option Bool → Json
  | none => Json.null
  | some b => Json.bool b

def bools (a : Array Bool) : Json := Json.arr (a.map Json.bool)
def optBools (a : Array (Option Bool)) : Json := Json.arr (a.map optB)

/-- spec verdict per entry: `none` where the implementation gave no answer -/
def verdicts {α} (n : Nat) (impl : Array (Option α)) (f : Nat → α → Bool) : Json :=
  Json.arr <| (Array.range n).map fun i =>
    match impl[i]? with
    | some (some x) => Json.bool (f i x)
    | _ => Json.null

def idxOf (pool : Array Cell) (c : Cell) : Json :=
  match pool.findIdx? (· == c) with
  | some i => (i : Nat)
  | none => Json.null

def cellsRes (pool : Array Cell) : Except Err (List Cell) → Json
  | .ok t => Json.arr (t.map (idxOf pool)).toArray
  | .error e => Json.str e.name

def exceptEq {α} [BEq α] : Except Err α → Except Err α → Option Bool
  | .ok a, .ok b => some (a == b)
  | _, _ => none

def handle (j : Json) : Except String Json := do
  let op ← (← j.getObjVal? "op").getStr?
  if op != "family" then throw s!"unknown op {op}"
  let pool := (← cellsFromJson (← j.getObjVal? "pool")).toArray
  let get (i : Nat) : Cell := pool[i]!
  let tris : Array (List Cell) ← (← (← j.getObjVal? "tris").getArr?).mapM fun e => do
    return (← natList e).map get
  let tri (i : Nat) : List Cell := tris[i]!
  let pairsJ ← j.getObjVal? "pairs"
  let pairs : Array (Nat × Nat) ←
    match pairsJ with
    | .str "all" => pure <| (Array.range tris.size).flatMap fun i => (Array.range tris.size).map fun k => (i, k)
    | v => natPairs v
  let impl := (j.getObjVal? "impl").toOption.getD (Json.mkObj [])
  let iEq ← optBoolArr impl "eq"
  let iHash ← optBoolArr impl "hashEq"
  let iLe ← optBoolArr impl "le"
  let iDisj ← optBoolArr impl "disj"
  let iInter ← optIdxLists impl "inter"
  let iDiff ← optIdxLists impl "diff"
  let iUnion ← optIdxLists impl "union"
  let iXor ← optIdxLists impl "xor"
  let n := pairs.size
  let pa (i : Nat) : List Cell := tri pairs[i]!.1
  let pb (i : Nat) : List Cell := tri pairs[i]!.2
  -- hash keys once per triangle
  let hkeys := tris.map triHashKey
  let mEq := pairs.map fun (x, y) => triEq (tri x) (tri y)
  let mKey := pairs.map fun (x, y) => exceptEq hkeys[x]! hkeys[y]!
  let mLe := pairs.map fun (x, y) => Triangle.le (tri x) (tri y)
  let mDisj := pairs.map fun (x, y) => Triangle.isdisjoint (tri x) (tri y)
  let wantSets := iInter.size > 0 || iDiff.size > 0
  let mInter := if wantSets then pairs.map fun (x, y) => cellsRes pool (Triangle.inter (tri x) (tri y)) else #[]
  let mDiff := if wantSets then pairs.map fun (x, y) => cellsRes pool (Triangle.diff (tri x) (tri y)) else #[]
  let wantU := iUnion.size > 0 || iXor.size > 0
  let mUnion := if wantU then pairs.map fun (x, y) => cellsRes pool (Triangle.union (tri x) (tri y)) else #[]
  let mXor := if wantU then pairs.map fun (x, y) => cellsRes pool (Triangle.symdiff (tri x) (tri y)) else #[]
  -- membership
  let mems ← match j.getObjVal? "mems" with
    | .ok v => natPairs v
    | .error _ => pure #[]
  let iMem ← optBoolArr j "implMem"
  let mMem := mems.map fun (c, t) => Triangle.mem (get c) (tri t)
  -- cells
  let cps ← match j.getObjVal? "cellPairs" with
    | .ok v => natPairs v
    | .error _ => pure #[]
  let iCEq ← optBoolArr j "implCellEq"
  let iCHash ← optBoolArr j "implCellHashEq"
  let mCEq := cps.map fun (x, y) => cellEq (get x) (get y)
  let mCRaises := cps.map fun (x, y) => cellEqRaises (get x) (get y)
  let mCKey := cps.map fun (x, y) => exceptEq (get x).hashKey (get y).hashKey
  -- metadata
  let metas : Array Metadata ← match j.getObjVal? "metas" with
    | .ok v => do (← v.getArr?).mapM Metadata.fromJson
    | .error _ => pure #[]
  let mps ← match j.getObjVal? "metaPairs" with
    | .ok v => natPairs v
    | .error _ => pure #[]
  let iMEq ← optBoolArr j "implMetaEq"
  let iMHash ← optBoolArr j "implMetaHashEq"
  let mMEq := mps.map fun (x, y) => metas[x]!.eqv metas[y]!
  let mMKey := mps.map fun (x, y) => metas[x]!.hashKey == metas[y]!.hashKey
  let wf := pool.all Spec.wfCell
  let model := Json.mkObj [
    ("eq", bools mEq), ("keyEq", optBools mKey), ("le", bools mLe), ("disj", bools mDisj),
    ("inter", Json.arr mInter), ("diff", Json.arr mDiff), ("union", Json.arr mUnion),
    ("xor", Json.arr mXor), ("mem", bools mMem),
    ("cellEq", bools mCEq), ("cellRaises", bools mCRaises), ("cellKeyEq", optBools mCKey),
    ("metaEq", bools mMEq), ("metaKeyEq", bools mMKey)]
  let spec := Json.mkObj [
    ("eq", verdicts n iEq fun i b => Spec.eqClause (pa i) (pb i) b),
    ("hash", verdicts n iHash fun i b => Spec.hashClause (pa i) (pb i) b),
    ("le", verdicts n iLe fun i b => Spec.leClause (pa i) (pb i) b),
    ("disj", verdicts n iDisj fun i b => Spec.disjClause (pa i) (pb i) b),
    ("inter", verdicts n iInter fun i out => Spec.interClause (pa i) (pb i) (out.map get)),
    ("diff", verdicts n iDiff fun i out => Spec.diffClause (pa i) (pb i) (out.map get)),
    ("union", verdicts n iUnion fun i out => Spec.unionClause (pa i) (pb i) (out.map get)),
    ("xor", verdicts n iXor fun i out => Spec.xorClause (pa i) (pb i) (out.map get)),
    ("mem", verdicts mems.size iMem fun i b => Spec.memClause (get mems[i]!.1) (tri mems[i]!.2) b),
    ("cellEq", verdicts cps.size iCEq fun i b => Spec.cellEqClause (get cps[i]!.1) (get cps[i]!.2) b),
    ("cellHash", verdicts cps.size iCHash fun i b => Spec.cellHashClause (get cps[i]!.1) (get cps[i]!.2) b),
    ("metaEq", verdicts mps.size iMEq fun i b => Spec.metaEqClause metas[mps[i]!.1]! metas[mps[i]!.2]! b),
    ("metaHash", verdicts mps.size iMHash fun i b => Spec.metaHashClause metas[mps[i]!.1]! metas[mps[i]!.2]! b)]
  return Json.mkObj [("wf", Json.bool wf), ("model", model), ("spec", spec)]

def main : IO Unit := serve handle
