-- driver stub for C03: replaced by the real line-protocol driver
def main : IO Unit := pure ()
