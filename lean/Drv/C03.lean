import Bermuda.Model.Json
import Bermuda.Model.Heap
import Bermuda.Generated.Accum
open Lean Bermuda Bermuda.Heap

/-!
Driver of C03: runs the heap model of the accumulating helpers under the accumulator patterns
regenerated from the source.
  {"fn":"sum"|"wavg","values":[val…],"weights":["n/d"…]}
  {"fn":"vadd"|"vdiff"|"merge","a":[[k,val]…],"b":[[k,val]…]}
Answer {"model":{"ok":…}|{"err":…},"unchanged":bool,"alias":bool|[keys]}
-/

/-- put a wire value on the heap: arrays are allocated, scalars are immediate -/
def allocVal (h : Heap) (v : Val) : Heap × Ref :=
  match v with
  | .none => (h, .none)
  | .int i => (h, .scalar i)
  | .flt q => (h, .scalar q)
  | .arr _ _ d => let (h', l) := h.alloc (.arr d); (h', .loc l)

def allocVals (h : Heap) : List Val → Heap × List Ref
  | [] => (h, [])
  | v :: vs =>
    let (h1, r) := allocVal h v
    let (h2, rs) := allocVals h1 vs
    (h2, r :: rs)

def allocDict (h : Heap) (d : Dict Val) : Heap × Loc :=
  let (h1, rs) := allocVals h (d.map (·.2))
  h1.alloc (.dict ((d.map (·.1)).zip rs))

def refToJson (h : Heap) : Ref → Json
  | .none => Json.null
  | .scalar q => Val.toJson (.flt q)
  | .loc l => match h.get l with
    | some (.arr d) => Val.toJson (.arr false [d.length] d)
    | _ => Json.str "<object>"

def resultJson (f : Heap → Ref → Json) : Res → Json
  | (h, .ok a) => Json.mkObj [("ok", f h a)]
  | (_, .error e) => Json.mkObj [("err", Json.str e.name)]

/-- a cell on the heap: arrays, its values dict, the cell object (no metadata) -/
def allocCell (h : Heap) (d : Dict Val) : Heap × Loc :=
  let (h1, v) := allocDict h d
  mkCell h1 (.loc v) .none

def strList (j : Json) (k : String) : Except String (List String) := do
  (← (← j.getObjVal? k).getArr?).toList.mapM (·.getStr?)

/-- the cell-level helpers: {"fn":…, "a":[[k,val]…], "b":…, parameters}; the answer lists the result
cell's values, which of them alias an argument object, and whether the arguments are unchanged -/
def cellOp (fn : String) (j : Json) : Except String Json := do
  let (h0, r) ← match fn with
    | "summarize_cells" => do
      let cells ← (← (← j.getObjVal? "cells").getArr?).toList.mapM (dictFromJson Val.fromJson)
      let keys ← strList j "keys"
      let (h0, locs) := cells.foldl (fun (acc : Heap × List Loc) d =>
        let (h', c) := allocCell acc.1 d; (h', acc.2 ++ [c])) (({} : Heap), [])
      pure (h0, summarizeCellValues Generated.Accum.pattern__conforming_sum h0 locs keys)
    | _ => do
      let a ← dictFromJson Val.fromJson (← j.getObjVal? "a")
      let (h1, ca) := allocCell {} a
      match fn with
      | "thin" =>
        let ndxs ← (← (← j.getObjVal? "ndxs").getArr?).toList.mapM (·.getNat?)
        pure (h1, thinCell Generated.Accum.pattern__thin_cell h1 ca ndxs)
      | "currency" =>
        let fields ← strList j "fields"
        let rate ← ratFromJson (← j.getObjVal? "rate")
        pure (h1, convertCellCurrency Generated.Accum.pattern__convert_cell_currency h1 ca fields rate (.scalar 1))
      | "select" =>
        pure (h1, cellSelect Generated.Accum.pattern_Cell_select h1 ca (← strList j "keys"))
      | "derive_fields" =>
        let defs ← dictFromJson Val.fromJson (← j.getObjVal? "defs")
        let (h2, refs) := allocVals h1 (defs.map (·.2))
        pure (h2, cellDeriveFields Generated.Accum.pattern_Cell_derive_fields h2 ca ((defs.map (·.1)).zip refs))
      | "add_statics" =>
        let b ← dictFromJson Val.fromJson (← j.getObjVal? "b")
        let (h2, cb) := allocCell h1 b
        pure (h2, cellAddStatics Generated.Accum.pattern_Cell_add_statics h2 ca cb (← strList j "fields"))
      | _ =>
        let b ← dictFromJson Val.fromJson (← j.getObjVal? "b")
        let (h2, cb) := allocCell h1 b
        let suffix := match j.getObjVal? "suffix" with
          | .ok (.str s) => some s
          | _ => none
        pure (h2, overwriteValues Generated.Accum.pattern__overwrite_values h2 ca cb suffix)
  let entries : List (String × Ref) := match r with
    | (h', .ok (.loc l)) =>
      if fn == "summarize_cells" then (match h'.get l with | some (.dict es) => es | _ => [])
      else ((cellValues h' l).map (·.2)).getD []
    | _ => []
  let alias : List Json := entries.filterMap fun (e : String × Ref) => match e.2 with
    | Ref.loc l => if l < h0.size then some (Json.str e.1) else none
    | _ => none
  let out := match r with
    | (h', .ok _) => Json.mkObj [("ok", Json.arr (entries.map fun e => Json.arr #[Json.str e.1, refToJson h' e.2]).toArray)]
    | (_, .error e) => Json.mkObj [("err", Json.str e.name)]
  return Json.mkObj [("model", out), ("unchanged", preservesB h0 r.1), ("alias", Json.arr alias.toArray)]

def handle (j : Json) : Except String Json := do
  let fn ← (← j.getObjVal? "fn").getStr?
  match fn with
  | "sum" | "wavg" =>
    let vals ← (← (← j.getObjVal? "values").getArr?).toList.mapM Val.fromJson
    let ws ← (← (← j.getObjVal? "weights").getArr?).toList.mapM ratFromJson
    let (h0, refs) := allocVals {} vals
    let r := if fn == "sum" then conformingSum Generated.Accum.pattern__conforming_sum h0 refs
             else conformingWeightedAverage Generated.Accum.pattern__conforming_weighted_average h0 refs ws
    let unchanged := preservesB h0 r.1
    let alias := match r with | (_, .ok (.loc l)) => decide (l < h0.size) | _ => false
    return Json.mkObj [("model", resultJson refToJson r), ("unchanged", unchanged), ("alias", alias)]
  | "vadd" | "vdiff" | "merge" =>
    let a ← dictFromJson Val.fromJson (← j.getObjVal? "a")
    let b ← dictFromJson Val.fromJson (← j.getObjVal? "b")
    let (h1, la) := allocDict {} a
    let (h0, lb) := allocDict h1 b
    let r := if fn == "vadd" then valuesAdd Generated.Accum.pattern__values_add h0 la lb
             else if fn == "vdiff" then valuesDiff Generated.Accum.pattern__values_diff h0 la lb
             else mergeCellPair Generated.Accum.pattern__merge_cell_pair h0 (.loc la) (.loc lb)
    let unchanged := preservesB h0 r.1
    let entries (h : Heap) (x : Ref) : List (String × Ref) := match x with
      | .loc l => match h.get l with | some (.dict es) => es | _ => []
      | _ => []
    let alias : List Json := match r with
      | (h', .ok x) => (entries h' x).filterMap fun (e : String × Ref) => match e.2 with
        | Ref.loc l => if l < h0.size then some (Json.str e.1) else none
        | _ => none
      | (_, .error _) => []
    let out := resultJson (fun h x => Json.arr ((entries h x).map fun e => Json.arr #[Json.str e.1, refToJson h e.2]).toArray) r
    return Json.mkObj [("model", out), ("unchanged", unchanged), ("alias", Json.arr alias.toArray)]
  | "thin" | "currency" | "select" | "derive_fields" | "add_statics" | "overwrite" | "summarize_cells" =>
    cellOp fn j
  | o => throw s!"unknown fn {o}"

def main : IO Unit := serve handle
