import Bermuda.Model.Json
import Bermuda.Model.Heap
import Bermuda.Generated.Accum
open Lean Bermuda Bermuda.Heap

/-!
Driver of C03: runs the heap model of the accumulating helpers under the accumulator patterns
regenerated from the source.
  {"fn":"sum"|"wavg","values":[val…],"weights":["n/d"…]}
  {"fn":"vadd"|"vdiff"|"merge","a":[[k,val]…],"b":[[k,val]…]}
Answer {"model":{"ok":…}|{"err":…},"unchanged":bool,"alias":bool|[keys]}
-/

/-- put a wire value on the heap: arrays are allocated, scalars are immediate -/
def allocVal (h : Heap) (v : Val) : Heap × Ref :=
  match v with
  | .none => (h, .none)
  | .int i => (h, .scalar i)
  | .flt q => (h, .scalar q)
  | .arr _ _ d => let (h', l) := h.alloc (.arr d); (h', .loc l)

def allocVals (h : Heap) : List Val → Heap × List Ref
  | [] => (h, [])
  | v :: vs =>
    let (h1, r) := allocVal h v
    let (h2, rs) := allocVals h1 vs
    (h2, r :: rs)

def allocDict (h : Heap) (d : Dict Val) : Heap × Loc :=
  let (h1, rs) := allocVals h (d.map (·.2))
  h1.alloc (.dict ((d.map (·.1)).zip rs))

def refToJson (h : Heap) : Ref → Json
  | .none => Json.null
  | .scalar q => Val.toJson (.flt q)
  | .loc l => match h.get l with
    | some (.arr d) => Val.toJson (.arr false [d.length] d)
    | _ => Json.str "<object>"

def resultJson (f : Heap → Ref → Json) : Res → Json
  | (h, .ok a) => Json.mkObj [("ok", f h a)]
  | (_, .error e) => Json.mkObj [("err", Json.str e.name)]

def handle (j : Json) : Except String Json := do
  let fn ← (← j.getObjVal? "fn").getStr?
  match fn with
  | "sum" | "wavg" =>
    let vals ← (← (← j.getObjVal? "values").getArr?).toList.mapM Val.fromJson
    let ws ← (← (← j.getObjVal? "weights").getArr?).toList.mapM ratFromJson
    let (h0, refs) := allocVals {} vals
    let r := if fn == "sum" then conformingSum Generated.Accum.pattern__conforming_sum h0 refs
             else conformingWeightedAverage Generated.Accum.pattern__conforming_weighted_average h0 refs ws
    let unchanged := preservesB h0 r.1
    let alias := match r with | (_, .ok (.loc l)) => decide (l < h0.size) | _ => false
    return Json.mkObj [("model", resultJson refToJson r), ("unchanged", unchanged), ("alias", alias)]
  | "vadd" | "vdiff" | "merge" =>
    let a ← dictFromJson Val.fromJson (← j.getObjVal? "a")
    let b ← dictFromJson Val.fromJson (← j.getObjVal? "b")
    let (h1, la) := allocDict {} a
    let (h0, lb) := allocDict h1 b
    let r := if fn == "vadd" then valuesAdd Generated.Accum.pattern__values_add h0 la lb
             else if fn == "vdiff" then valuesDiff Generated.Accum.pattern__values_diff h0 la lb
             else mergeCellPair Generated.Accum.pattern__merge_cell_pair h0 (.loc la) (.loc lb)
    let unchanged := preservesB h0 r.1
    let entries (h : Heap) (x : Ref) : List (String × Ref) := match x with
      | .loc l => match h.get l with | some (.dict es) => es | _ => []
      | _ => []
    let alias : List Json := match r with
      | (h', .ok x) => (entries h' x).filterMap fun (e : String × Ref) => match e.2 with
        | Ref.loc l => if l < h0.size then some (Json.str e.1) else none
        | _ => none
      | (_, .error _) => []
    let out := resultJson (fun h x => Json.arr ((entries h x).map fun e => Json.arr #[Json.str e.1, refToJson h e.2]).toArray) r
    return Json.mkObj [("model", out), ("unchanged", unchanged), ("alias", Json.arr alias.toArray)]
  | o => throw s!"unknown fn {o}"

def main : IO Unit := serve handle
