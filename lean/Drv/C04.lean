-- driver stub for C04: replaced by the real line-protocol driver
def main : IO Unit := pure ()
