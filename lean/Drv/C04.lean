import Bermuda.Model.Json
import Bermuda.Model.Basis
import Bermuda.Spec.C04
open Lean Bermuda

/-- the implementation's output, when it returned one -/
def implCells? (j : Json) : Except String (Option (List Cell)) :=
  match j.getObjVal? "impl" with
  | .ok v => if v.isNull then .ok none else (cellsFromJson v).map some
  | .error _ => .ok none

def specObj (impl : Option (List Cell)) (f : List Cell → List (String × Json)) : Json :=
  match impl with
  | none => Json.null
  | some u => Json.mkObj (f u)

def handle (j : Json) : Except String Json := do
  let op ← (← j.getObjVal? "op").getStr?
  let cells ← cellsFromJson (← j.getObjVal? "cells")
  let impl ← implCells? j
  match op with
  | "toInc" =>
    let spec := specObj impl fun u =>
      if Triangle.isIncremental cells then [("identity", Spec.cellsEqv cells u)]
      else [("rowSpec", Spec.toIncRowSpec cells u), ("canonical", Spec.isCanonical u)]
    return Json.mkObj [("model", exceptToJson cellsToJson (Triangle.toIncremental cells)), ("spec", spec)]
  | "toCum" =>
    let spec := specObj impl fun t =>
      if Triangle.isIncremental cells then
        [("rowSpec", Spec.toCumRowSpec cells t), ("canonical", Spec.isCanonical t)]
      else [("identity", Spec.cellsEqv cells t)]
    return Json.mkObj [("model", exceptToJson cellsToJson (Triangle.toCumulative cells)), ("spec", spec)]
  | "rtCum" =>
    -- to_cumulative(to_incremental(t))
    let spec := specObj impl fun back => [("roundTrip", Spec.roundTripCumSpec cells back)]
    return Json.mkObj [("model", exceptToJson cellsToJson
      ((Triangle.toIncremental cells).bind Triangle.toCumulative)), ("spec", spec)]
  | "rtInc" =>
    -- to_incremental(to_cumulative(u))
    let spec := specObj impl fun back => [("roundTrip", Spec.roundTripIncSpec cells back)]
    return Json.mkObj [("model", exceptToJson cellsToJson
      ((Triangle.toCumulative cells).bind Triangle.toIncremental)), ("spec", spec)]
  | o => throw s!"unknown op {o}"

def main : IO Unit := serve handle
