-- driver stub for C05: replaced by the real line-protocol driver
def main : IO Unit := pure ()
