import Bermuda.Model.CodecJson
open Bermuda
/-- line-protocol driver of the codec model (shared by C05, C06 and C19) -/
def main : IO Unit := serve Codec.handle
