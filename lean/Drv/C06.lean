import Bermuda.Model.CodecJson
import Bermuda.Spec.C05
import Bermuda.Model.CodecLayout
open Lean Bermuda Bermuda.Codec

/-- Line-protocol driver of the codec model (C06; `case` additionally answers `layoutDecodeEq`: `Codec.decodeLayout`, the
decoder written from the layout description, recovers the cells from the implementation's file). Everything is `Codec.handle`; the answer to `pycase`
(the writer as written, also on NON-coherent triangles) additionally carries the read-back oracle of theorem
`C05.decode_encodePy_firstRepr`: `firstRepr cells`, and — when the request holds `impl`, what `from_binary`
returned for the implementation's file — `readBackSpec = Spec.C05.roundTrip (firstRepr cells) impl`. -/
def handlePy (j : Json) : Except String Json := do
  let out ← Codec.handle j
  match (← (← j.getObjVal? "op").getStr?) with
  | "pycase" =>
    let cells ← rawCellsFromJson (← j.getObjVal? "cells")
    let fr := firstRepr cells
    let impl ← optCells j "impl"
    let extra := [("firstReprChanged", Json.bool (fr != cells))] ++
      (match impl with
       | some r => [("readBackSpec", Json.bool (Spec.C05.roundTrip fr r)),
                    ("readBackIsOriginal", Json.bool (Spec.C05.roundTrip cells r))]
       | none => [])
    return out.mergeObj (Json.mkObj extra)
  | "case" =>
    -- the decoder written from the layout description (theorem C06.decodeLayout_encode) on the IMPLEMENTATION's file
    let cells ← rawCellsFromJson (← j.getObjVal? "cells")
    let fb ← hexFromJson (← j.getObjVal? "file")
    let ok := match decodeLayout fb with
      | .ok r => r == cells
      | .error _ => false
    return out.mergeObj (Json.mkObj [("layoutDecodeEq", Json.bool ok)])
  | _ => return out

def main : IO Unit := serve handlePy
