-- driver stub for C06: replaced by the real line-protocol driver
def main : IO Unit := pure ()
