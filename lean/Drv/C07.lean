-- driver stub for C07: replaced by the real line-protocol driver
def main : IO Unit := pure ()
