import Bermuda.Model.Json
import Bermuda.Model.JsonIO
import Bermuda.Spec.C07
open Lean Bermuda Bermuda.JsonIO

/-! Driver for C07. Wire additions (see harness/c07.py):
  Scalar  null | true | false | ["i",n] | ["f","n/d"] | ["s",text]
  JVal    Scalar | ["l",[JVal…]] | ["o",[[key,JVal]…]]
  JMeta   {"rb","co","cu","re","ld": str|null, "lim": Scalar, "det": [[k,Scalar]…], "ldet": …}
  JCell   as Cell, with "m": JMeta
-/

def scalarToJson : Scalar → Json
  | .null => Json.null
  | .bool b => Json.bool b
  | .int i => Json.arr #["i", Json.num (JsonNumber.fromInt i)]
  | .flt q => Json.arr #["f", ratToJson q]
  | .str s => Json.arr #["s", Json.str s]

def scalarFromJson (j : Json) : Except String Scalar := do
  match j with
  | .null => return .null
  | .bool b => return .bool b
  | _ =>
    let a ← j.getArr?
    if a.size != 2 then throw "scalar: want pair"
    match (← a[0]!.getStr?) with
    | "i" => return .int (← jInt? a[1]!)
    | "f" => return .flt (← ratFromJson a[1]!)
    | "s" => return .str (← a[1]!.getStr?)
    | t => throw s!"scalar: bad tag {t}"

partial def jvalToJson : JVal → Json
  | .null => Json.null
  | .bool b => Json.bool b
  | .int i => Json.arr #["i", Json.num (JsonNumber.fromInt i)]
  | .flt q => Json.arr #["f", ratToJson q]
  | .str s => Json.arr #["s", Json.str s]
  | .arr l => Json.arr #["l", Json.arr (l.map jvalToJson).toArray]
  | .obj kvs => Json.arr #["o", Json.arr (kvs.map fun kv => Json.arr #[Json.str kv.1, jvalToJson kv.2]).toArray]

partial def jvalFromJson (j : Json) : Except String JVal := do
  match j with
  | .null => return .null
  | .bool b => return .bool b
  | _ =>
    let a ← j.getArr?
    if a.size != 2 then throw "jval: want pair"
    match (← a[0]!.getStr?) with
    | "i" => return .int (← jInt? a[1]!)
    | "f" => return .flt (← ratFromJson a[1]!)
    | "s" => return .str (← a[1]!.getStr?)
    | "l" => return .arr (← (← a[1]!.getArr?).toList.mapM jvalFromJson)
    | "o" =>
      let kvs ← (← a[1]!.getArr?).toList.mapM fun e => do
        let p ← e.getArr?
        if p.size != 2 then throw "jval: want [key, value]"
        return (← p[0]!.getStr?, ← jvalFromJson p[1]!)
      return .obj kvs
    | t => throw s!"jval: bad tag {t}"

def jmetaToJson (m : JMeta) : Json :=
  Json.mkObj [
    ("rb", optToJson strToJson m.riskBasis), ("co", optToJson strToJson m.country),
    ("cu", optToJson strToJson m.currency), ("re", optToJson strToJson m.reinsuranceBasis),
    ("ld", optToJson strToJson m.lossDefinition), ("lim", scalarToJson m.limit),
    ("det", dictToJson scalarToJson m.details), ("ldet", dictToJson scalarToJson m.lossDetails)]

def jmetaFromJson (j : Json) : Except String JMeta := do
  let s (k : String) : Except String (Option String) := do
    optFromJson (·.getStr?) (← j.getObjVal? k)
  return {
    riskBasis := ← s "rb", country := ← s "co", currency := ← s "cu",
    reinsuranceBasis := ← s "re", lossDefinition := ← s "ld",
    limit := ← scalarFromJson (← j.getObjVal? "lim"),
    details := ← dictFromJson scalarFromJson (← j.getObjVal? "det"),
    lossDetails := ← dictFromJson scalarFromJson (← j.getObjVal? "ldet") }

def jcellToJson (c : JCell) : Json :=
  Json.mkObj [
    ("k", Json.str c.kind.toStr), ("ps", c.ps.toJson), ("pe", c.pe.toJson), ("ev", c.ev.toJson),
    ("prev", optToJson Date.toJson c.prev), ("v", dictToJson Val.toJson c.values),
    ("m", jmetaToJson c.md)]

def jcellFromJson (j : Json) : Except String JCell := do
  return {
    kind := ← CellKind.ofStr (← (← j.getObjVal? "k").getStr?),
    ps := ← Date.fromJson (← j.getObjVal? "ps"),
    pe := ← Date.fromJson (← j.getObjVal? "pe"),
    ev := ← Date.fromJson (← j.getObjVal? "ev"),
    prev := ← optFromJson Date.fromJson (← j.getObjVal? "prev"),
    values := ← dictFromJson Val.fromJson (← j.getObjVal? "v"),
    md := ← jmetaFromJson (← j.getObjVal? "m") }

def jcellsToJson (cs : List JCell) : Json := Json.arr (cs.map jcellToJson).toArray
def jcellsFromJson (j : Json) : Except String (List JCell) := do
  (← j.getArr?).toList.mapM jcellFromJson

/-! ### a plain JSON serializer (no library code involved): exact decimal expansion of floats -/

def log2Exact (d : Nat) : Option Nat :=
  let k := Nat.log2 d
  if 2 ^ k == d then some k else none

/-- exact decimal text of a dyadic rational, always with a fractional part (so it reads back as a
float); every IEEE double is dyadic -/
def renderFloat (q : Rat) : String :=
  match log2Exact q.den with
  | none => "null"   -- not a float: never produced by the harness
  | some k =>
    let mag : Nat := q.num.natAbs * 5 ^ k
    let ds := toString mag
    let ds := if ds.length ≤ k then String.ofList (List.replicate (k + 1 - ds.length) '0') ++ ds else ds
    let cut := ds.length - k
    let ip := String.ofList (ds.toList.take cut)
    let fp := String.ofList (ds.toList.drop cut)
    (if q.num < 0 then "-" else "") ++ ip ++ "." ++ (if fp.isEmpty then "0" else fp)

partial def render : JVal → String
  | .null => "null"
  | .bool b => if b then "true" else "false"
  | .int i => toString i
  | .flt q => renderFloat q
  | .str s => (Json.str s).compress
  | .arr l => "[" ++ ", ".intercalate (l.map render) ++ "]"
  | .obj kvs => "{" ++ ", ".intercalate (kvs.map fun kv => (Json.str kv.1).compress ++ ": " ++ render kv.2) ++ "}"

def specOn (t : List JCell) (j : Json) : Except String Json := do
  let dictSpec ← match j.getObjVal? "impl_dict" with
    | .ok v =>
      if v.isNull then pure Json.null else
      let d ← jvalFromJson v
      pure (Json.mkObj [("text", Spec.C07.textSpec t d), ("slicesOnce", Spec.C07.slicesOnce t d)])
    | .error _ => pure Json.null
  let loadSpec ← match j.getObjVal? "impl_loaded" with
    | .ok v =>
      if v.isNull then pure Json.null else
      let outs ← (← v.getArr?).toList.mapM jcellsFromJson
      pure (Json.arr (outs.map fun o => Json.bool (Spec.C07.loadSpec t o)).toArray)
    | .error _ => pure Json.null
  return Json.mkObj [("dict", dictSpec), ("load", loadSpec)]

def handle (j : Json) : Except String Json := do
  let op ← (← j.getObjVal? "op").getStr?
  match op with
  | "rt" =>
    let t ← jcellsFromJson (← j.getObjVal? "cells")
    let d := toDict t
    return Json.mkObj [
      ("wf", WFjson t),
      ("toDict", jvalToJson d),
      ("text", Json.str (render d)),
      ("fromDict", exceptToJson jcellsToJson (fromDict d)),
      ("plain", optToJson jcellsToJson (Spec.C07.plainRead d)),
      ("spec", ← specOn t j)]
  | "load" =>
    let d ← jvalFromJson (← j.getObjVal? "doc")
    return Json.mkObj [
      ("fromDict", exceptToJson jcellsToJson (fromDict d)),
      ("plain", optToJson jcellsToJson (Spec.C07.plainRead d)),
      ("text", Json.str (render d))]
  | o => throw s!"unknown op {o}"

def main : IO Unit := serve handle
