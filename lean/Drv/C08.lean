-- driver stub for C08: replaced by the real line-protocol driver
def main : IO Unit := pure ()
