import Bermuda.Model.Json
import Bermuda.Model.Aggregate
import Bermuda.Spec.C08
open Lean Bermuda

def resOf (j : Json) (k : String) : Except String (Option (Int × String)) :=
  match j.getObjVal? k with
  | .ok v =>
    if v.isNull then .ok none else do
      let a ← v.getArr?
      if a.size != 2 then throw "resolution: want [quantity, unit]"
      return some (← jInt? a[0]!, ← a[1]!.getStr?)
  | .error _ => .ok none

def dateOf (j : Json) (k : String) (dflt : Date) : Except String Date :=
  match j.getObjVal? k with
  | .ok v => if v.isNull then .ok dflt else Date.fromJson v
  | .error _ => .ok dflt

/-- Spec verdicts on the implementation's output `impl` (`none` when it raised) for a CUMULATIVE source in the
aligned regime; `null` otherwise (exotic origins and incremental inputs are compared against the model / by the
commutation check only) -/
def specOf (t : List Cell) (a : AggArgs) (impl : Option (List Cell)) : Json := Id.run do
  if smIsIncremental t then return Json.null
  -- evaluation part
  let mut src := t
  let mut fields : List (String × Json) := []
  match a.evalRes with
  | none => pure ()
  | some (q, s) =>
    match standardizeResolution q s with
    | .error _ => return Json.null
    | .ok (q, u) =>
      if !Spec.C08.aligned u a.evalOrigin || q ≤ 0 then return Json.null
      src := t.filter fun c => Spec.C08.onGrid q u a.evalOrigin c.ev
  let emptied := (Triangle.slices t).any fun p => (p.2.filter fun c => src.contains c).isEmpty
  match a.periodRes with
  | none =>
    match impl with
    | some out => fields := fields ++ [("evalOk", Json.bool (out == src))]
    | none => pure ()
  | some (q, s) =>
    match standardizeResolution q s with
    | .error _ => return Json.null
    | .ok (q, u) =>
      if !Spec.C08.aligned u a.periodOrigin || q ≤ 0 then return Json.null
      fields := fields ++ [("expectStraddle", Json.bool (Spec.C08.expectStraddle q u a.periodOrigin src)),
                           ("emptiedSlice", Json.bool emptied)]
      match impl with
      | some out =>
        let summed := if a.prem then Spec.C09.additiveFields else Spec.C09.lossFields
        fields := fields ++ [
          ("windowsOk", Json.bool (Spec.C08.windowsOk q u a.periodOrigin out)),
          ("cover", Json.bool (Spec.C08.cover src out)),
          ("cellSums", Json.bool (Spec.C08.cellSums summed src out)),
          ("keysOk", Json.bool (Spec.C08.keysOk src out)),
          ("conserves", Json.bool (Spec.C08.conserves summed src out))]
      | none => pure ()
  return Json.mkObj fields

def handle (j : Json) : Except String Json := do
  let cells ← cellsFromJson (← j.getObjVal? "cells")
  let a : AggArgs := {
    periodRes := ← resOf j "pres", evalRes := ← resOf j "eres",
    periodOrigin := ← dateOf j "porigin" ⟨1999, 12, 31⟩, evalOrigin := ← dateOf j "eorigin" ⟨1999, 12, 31⟩,
    prem := ← (← j.getObjVal? "prem").getBool? }
  let impl ← match j.getObjVal? "impl" with
    | .ok v => if v.isNull then pure none else (cellsFromJson v).map some
    | .error _ => pure none
  let model := aggregate Transc.id cells a
  return Json.mkObj [("model", exceptToJson cellsToJson model), ("spec", specOf cells a impl)]

def main : IO Unit := serve handle
