-- driver stub for C09: replaced by the real line-protocol driver
def main : IO Unit := pure ()
