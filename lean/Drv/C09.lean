import Bermuda.Model.Json
import Bermuda.Model.Summarize
import Bermuda.Spec.C09
open Lean Bermuda

def ruleEntryFromJson (j : Json) : Except String RuleEntry := do
  let a ← j.getArr?
  if a.size != 3 then throw "rule: want [name, kind, [keys]]"
  return (← a[0]!.getStr?, ← a[1]!.getStr?, ← (← a[2]!.getArr?).toList.mapM (·.getStr?))

def extraOf (j : Json) : Except String (List RuleEntry) :=
  match j.getObjVal? "extra" with
  | .ok v => do (← v.getArr?).toList.mapM ruleEntryFromJson
  | .error _ => .ok []

def tol : Rat := 1 / 1099511627776   -- 2^-40

/-- the property speaks about the DEFAULT rules: a field whose rule the caller overrides through
`summary_fns` is left to the model comparison -/
def stillDefault (extra : List RuleEntry) (fields : List String) : List String :=
  fields.filter fun f => ruleOf extra f == ruleOf [] f

/-- Spec verdicts on an implementation output -/
def specOf (extra : List RuleEntry) (prem : Bool) (t out : List Cell) : Json :=
  let incr := smIsIncremental t
  let summed := stillDefault extra (if prem || incr then Spec.C09.additiveFields else Spec.C09.lossFields)
  Json.mkObj [
    ("conserves", Spec.C09.conserves summed t out),
    ("cellSums", Spec.C09.cellSums summed t out),
    ("coordsOk", Spec.C09.coordsOk t out),
    ("keysOk", Spec.C09.keysOk t out),
    ("metaOk", Spec.C09.metaOk t out),
    ("nonLossOk", (prem || incr) || Spec.C09.nonLossOkStrict Generated.Summarize.nonLossMetrics t out),
    ("ratioOk", Spec.C09.ratioOk tol "reported_loss"
        (stillDefault extra (if prem || incr then Spec.C09.ratioFields else [])) t out)]

/-- known finding D29: `Spec.ratioOk` (the code's reading: weights of cells WITHOUT a value stay in the denominator)
accepts the implementation's output while the plain reading `Spec.ratioOkPlain` (numerator and denominator over the
cells that have a value) rejects it -/
def d29Of (extra : List RuleEntry) (prem : Bool) (t out : List Cell) : Bool :=
  let incr := smIsIncremental t
  let fields := stillDefault extra (if prem || incr then Spec.C09.ratioFields else [])
  Spec.C09.ratioOk tol "reported_loss" fields t out && !Spec.C09.ratioOkPlain tol "reported_loss" fields t out

def handle (j : Json) : Except String Json := do
  let op ← (← j.getObjVal? "op").getStr?
  let prem ← (← j.getObjVal? "prem").getBool?
  let extra ← extraOf j
  let cells ← cellsFromJson (← j.getObjVal? "cells")
  match op with
  | "summarize" =>
    let model := summarize Transc.id extra cells prem
    let (spec, d29) ← match j.getObjVal? "impl" with
      | .ok v => if v.isNull then pure (Json.null, false) else do
          let out ← cellsFromJson v
          pure (specOf extra prem cells out, d29Of extra prem cells out)
      | .error _ => pure (Json.null, false)
    return Json.mkObj [("model", exceptToJson cellsToJson model), ("spec", spec), ("d29", Json.bool d29)]
  | "cellValues" =>
    -- `summarize_cell_values(cells, agg_fns, summarize_premium)` on an arbitrary list of cells; for the Spec the
    -- cells are placed at one coordinate (the function never looks at coordinates)
    let model := summarizeCellValues Transc.id extra cells prem
    let spec ← match j.getObjVal? "impl" with
      | .ok v => if v.isNull then pure Json.null else do
          let vals ← dictFromJson Val.fromJson v
          match cells with
          | [] => pure Json.null
          | c0 :: _ =>
            let t := cells.map fun c => { c with kind := .cumulative, ps := c0.ps, pe := c0.pe, ev := c0.ev, prev := none }
            let o : Cell := { c0 with kind := .cumulative, prev := none, values := vals }
            let summed := stillDefault extra (if prem then Spec.C09.additiveFields else Spec.C09.lossFields)
            pure (Json.mkObj [
              ("cellSums", Spec.C09.cellSums summed t [o]),
              ("keysOk", Spec.C09.keysOk t [o]),
              ("nonLossOk", prem || Spec.C09.nonLossOkStrict Generated.Summarize.nonLossMetrics t [o]),
              ("ratioOk", Spec.C09.ratioOk tol "reported_loss" (stillDefault extra (if prem then Spec.C09.ratioFields else [])) t [o])])
      | .error _ => pure Json.null
    return Json.mkObj [("model", exceptToJson (dictToJson Val.toJson) model), ("spec", spec)]
  | o => throw s!"unknown op {o}"

def main : IO Unit := serve handle
