/-
Line-protocol driver for C10. One request = one batch:
  {"cells":[wire cell …], "items":[item …]}      (items refer to cells by index into "cells")
  item: {"op":"join"|"merge", "ty":str, "on":[str…]|null, "a":[i…], "b":[i…], "impl":R}
        {"op":"coalesce", "ts":[[i…]…], "impl":R}
        {"op":"addStatics", "a":[i…], "b":[i…], "statics":[str…], "impl":R}
        {"op":"periodMerge", "a":[i…], "b":[i…], "suffix":str|null, "impl":R}
  R = {"ok": [i…]} (join: [[i|null, i|null]…]) | {"err": class}
answer {"res":[{"same":bool, "hyp":bool, "spec":bool|null, "via":str|null, "model":dump (only when not same)} …]}.
"same": model result = implementation result (join: as multisets of pairs — Python returns them in
set-iteration order). addStatics / periodMerge: the model compared with the implementation is the literal loop
(`addStaticsLit`, `periodMergeLit`); "direct": the direct form (`addStatics`, `periodMerge`, about
which the theorems are stated; equal by `addStaticsLit_eq` / `periodMergeLit_eq`) gives the same.
"hyp": the distinct-keys hypothesis holds for the input. "spec": the Spec predicate(s) on the
implementation's output, "via": which predicate(s) gave the verdict:
  join / merge   hypothesis-free `joinSpecLast` / `mergeSpecLast` on EVERY case (bridges
                 `joinSpecLast_of_join`, `mergeSpecLast_of_merge`), and additionally `joinSpec` / `mergeSpec`
                 when "hyp" holds (the conjunction is reported);
  coalesce       `coalesceSpec` on every case (`coalesceSpec_of_coalesce` has no hypothesis; "hyp" is information);
  addStatics / periodMerge   only when "hyp" holds.
null: no predicate applies (hypothesis false for addStatics / periodMerge, unknown join type) or the
implementation raised.
-/
import Bermuda.Model.Json
import Bermuda.Model.Join
import Bermuda.Spec.C10
open Lean Bermuda

def idxList (tbl : Array Cell) (j : Json) : Except String (List Cell) := do
  (← j.getArr?).toList.mapM fun e => do
    let i ← e.getNat?
    match tbl[i]? with
    | some c => pure c
    | none => throw s!"cell index {i} out of range"

def optIdx (tbl : Array Cell) (j : Json) : Except String (Option Cell) := do
  if j.isNull then return none
  let i ← j.getNat?
  match tbl[i]? with
  | some c => pure (some c)
  | none => throw s!"cell index {i} out of range"

def pairList (tbl : Array Cell) (j : Json) : Except String (List CellPair) := do
  (← j.getArr?).toList.mapM fun e => do
    let a ← e.getArr?
    if a.size != 2 then throw "pair: want 2"
    return (← optIdx tbl a[0]!, ← optIdx tbl a[1]!)

def strList (j : Json) : Except String (List String) := do
  (← j.getArr?).toList.mapM (·.getStr?)

def optStrList (j : Json) (k : String) : Except String (Option (List String)) :=
  match j.getObjVal? k with
  | .ok v => if v.isNull then .ok none else (strList v).map some
  | .error _ => .ok none

def pairToJson (p : CellPair) : Json :=
  Json.arr #[optToJson Cell.toJson p.1, optToJson Cell.toJson p.2]

def pairsToJson (ps : List CellPair) : Json := Json.arr (ps.map pairToJson).toArray

/-- multiset equality -/
def permB {α} [BEq α] : List α → List α → Bool
  | [], l₂ => l₂.isEmpty
  | a :: l₁, l₂ => l₂.contains a && permB l₁ (l₂.erase a)

/-- implementation result: `ok` payload or error class -/
def implOf {α} (f : Json → Except String α) (j : Json) : Except String (Except String α) := do
  let r ← j.getObjVal? "impl"
  match r.getObjVal? "err" with
  | .ok e => return .error (← e.getStr?)
  | .error _ => return .ok (← f (← r.getObjVal? "ok"))

def answer {α} (toJ : α → Json) (eq : α → α → Bool) (model : Except Err α)
    (impl : Except String α) (hyp : Bool) (spec : α → Option (String × Bool)) : Json :=
  let same := match model, impl with
    | .ok m, .ok i => eq m i
    | .error e, .error c => e.name == c
    | _, _ => false
  let (specJ, viaJ) : Json × Json := match impl with
    | .ok i => match spec i with
      | some (via, v) => (Json.bool v, Json.str via)
      | none => (Json.null, Json.null)
    | .error _ => (Json.null, Json.null)
  if same then Json.mkObj [("same", true), ("hyp", hyp), ("spec", specJ), ("via", viaJ)]
  else Json.mkObj [("same", false), ("hyp", hyp), ("spec", specJ), ("via", viaJ),
    ("model", exceptToJson toJ model)]

/-- a predicate that needs the hypothesis -/
def gated {α} (hyp : Bool) (name : String) (spec : α → Bool) (x : α) : Option (String × Bool) :=
  if hyp then some (name, spec x) else none

def exceptEq (x y : Except Err (List Cell)) : Bool :=
  match x, y with
  | .ok a, .ok b => a == b
  | .error e, .error f => e == f
  | _, _ => false

def handleItem (tbl : Array Cell) (j : Json) : Except String Json := do
  let op ← (← j.getObjVal? "op").getStr?
  match op with
  | "join" =>
    let tyS ← (← j.getObjVal? "ty").getStr?
    let ty := JoinType.ofString? tyS
    let on ← optStrList j "on"
    let a ← idxList tbl (← j.getObjVal? "a")
    let b ← idxList tbl (← j.getObjVal? "b")
    let impl ← implOf (pairList tbl) j
    let hyp := ty.isSome && Spec.joinHyp on a b
    return answer pairsToJson permB (join ty on a b) impl hyp
      (fun ps => match ty with
        | some t =>
          if hyp then some ("joinSpec+joinSpecLast", Spec.joinSpec t on a b ps && Spec.joinSpecLast t on a b ps)
          else some ("joinSpecLast", Spec.joinSpecLast t on a b ps)
        | none => none)
  | "merge" =>
    let tyS ← (← j.getObjVal? "ty").getStr?
    let ty := JoinType.ofString? tyS
    let on ← optStrList j "on"
    let a ← idxList tbl (← j.getObjVal? "a")
    let b ← idxList tbl (← j.getObjVal? "b")
    let impl ← implOf (idxList tbl) j
    let hyp := ty.isSome && Spec.joinHyp on a b
    return answer cellsToJson (· == ·) (merge ty on a b) impl hyp
      (fun out => match ty with
        | some t =>
          if hyp then some ("mergeSpec+mergeSpecLast", Spec.mergeSpec t on a b out && Spec.mergeSpecLast t on a b out)
          else some ("mergeSpecLast", Spec.mergeSpecLast t on a b out)
        | none => none)
  | "coalesce" =>
    let ts ← (← (← j.getObjVal? "ts").getArr?).toList.mapM (idxList tbl)
    let impl ← implOf (idxList tbl) j
    -- `coalesceSpec_of_coalesce` needs no hypothesis: verdict on every case
    return answer cellsToJson (· == ·) (coalesce ts) impl (Spec.coalesceHyp ts)
      (fun out => some ("coalesceSpec", Spec.coalesceSpec ts out))
  | "addStatics" =>
    let a ← idxList tbl (← j.getObjVal? "a")
    let b ← idxList tbl (← j.getObjVal? "b")
    let statics ← strList (← j.getObjVal? "statics")
    let impl ← implOf (idxList tbl) j
    -- compared with the implementation: the LITERAL loop; "direct": the direct form agrees with it
    let lit := addStaticsLit a b statics
    let r := answer cellsToJson (· == ·) lit impl (Spec.addStaticsHyp a b)
      (gated (Spec.addStaticsHyp a b) "addStaticsSpec" (Spec.addStaticsSpec a b statics))
    return r.setObjVal! "direct" (Json.bool (exceptEq lit (addStatics a b statics)))
  | "periodMerge" =>
    let a ← idxList tbl (← j.getObjVal? "a")
    let b ← idxList tbl (← j.getObjVal? "b")
    let suffix : Option String ← match j.getObjVal? "suffix" with
      | .ok v => if v.isNull then pure none else (v.getStr?).map some
      | .error _ => pure none
    let impl ← implOf (idxList tbl) j
    let lit := periodMergeLit a b suffix
    let r := answer cellsToJson (· == ·) lit impl (Spec.leftHyp a)
      (gated (Spec.leftHyp a) "periodMergeSpec" (Spec.periodMergeSpec a b suffix))
    return r.setObjVal! "direct" (Json.bool (exceptEq lit (periodMerge a b suffix)))
  | o => throw s!"unknown op {o}"

def handle (j : Json) : Except String Json := do
  let tbl := (← cellsFromJson (← j.getObjVal? "cells")).toArray
  let items ← (← j.getObjVal? "items").getArr?
  let res ← items.toList.mapM (handleItem tbl)
  return Json.mkObj [("res", Json.arr res.toArray)]

def main : IO Unit := serve handle
