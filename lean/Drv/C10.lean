-- driver stub for C10: replaced by the real line-protocol driver
def main : IO Unit := pure ()
