import Bermuda.Model.Json
import Bermuda.Model.Select
import Bermuda.Spec.C11
open Lean Bermuda

/-! Line-protocol driver for C11. One request per triangle:
`{"cells":[...], "ops":[{"op":..., args..., "impl": <implementation output>}, ...]}` →
`{"t": {"ok":cells}|{"err":..}, "results":[{"model":..., "spec":...}, ...]}`. -/

def optField (j : Json) (k : String) : Option Json :=
  match j.getObjVal? k with
  | .ok v => if v.isNull then none else some v
  | .error _ => none

def optDateF (j : Json) (k : String) : Except String (Option Date) :=
  match optField j k with
  | some v => (Date.fromJson v).map some
  | none => .ok none

def optRatF (j : Json) (k : String) : Except String (Option Rat) :=
  match optField j k with
  | some v => (ratFromJson v).map some
  | none => .ok none

def strList (j : Json) : Except String (List String) := do
  (← j.getArr?).toList.mapM (·.getStr?)

def clipArgs (j : Json) : Except String ClipFull := do
  let unit ← match optField j "unit" with
    | some u => do pure (LagUnit.parse? (← u.getStr?))
    | none => pure (some LagUnit.month)
  return { minEval := ← optDateF j "minEval", maxEval := ← optDateF j "maxEval",
           minPeriod := ← optDateF j "minPeriod", maxPeriod := ← optDateF j "maxPeriod",
           minDev := ← optRatF j "minDev", maxDev := ← optRatF j "maxDev", unit := unit }

def dateIdx (j : Json) : Except String DateIdx := do
  match j with
  | .str _ => return .bad
  | _ =>
    match j.getObjVal? "d" with
    | .ok d => return .scalar (← Date.fromJson d)
    | .error _ =>
      let a ← (← j.getObjVal? "s").getArr?
      if a.size != 2 then throw "slice: want [start, stop]"
      return .slice (← optFromJson Date.fromJson a[0]!) (← optFromJson Date.fromJson a[1]!)

def metaIdx (j : Json) : Except String MetaIdx := do
  if j.isNull then return .none
  match j with
  | .str _ => return .all
  | _ => return .is (← Metadata.fromJson (← j.getObjVal? "m"))

def mvalsToJson (k : List MVal) : Json := Json.arr (k.map MVal.toJson).toArray
def mvalsFromJson (j : Json) : Except String (List MVal) := do (← j.getArr?).toList.mapM MVal.fromJson

def groupsToJson {κ} (f : κ → Json) (g : List (κ × List Cell)) : Json :=
  Json.arr (g.map fun p => Json.arr #[f p.1, cellsToJson p.2]).toArray

def groupsFromJson {κ} (f : Json → Except String κ) (j : Json) : Except String (List (κ × List Cell)) := do
  (← j.getArr?).toList.mapM fun e => do
    let a ← e.getArr?
    if a.size != 2 then throw "group: want [key, cells]"
    return (← f a[0]!, ← cellsFromJson a[1]!)

def itemToJson : List Cell ⊕ Cell → Json
  | .inl t => Json.mkObj [("t", cellsToJson t)]
  | .inr c => Json.mkObj [("c", c.toJson)]

def itemFromJson (j : Json) : Except String (List Cell ⊕ Cell) :=
  match j.getObjVal? "t" with
  | .ok t => (cellsFromJson t).map .inl
  | .error _ => do return .inr (← Cell.fromJson (← j.getObjVal? "c"))

/-- the implementation's output when it did not raise: `impl = {"ok": x}` -/
def implOk (j : Json) : Option Json :=
  match j.getObjVal? "impl" with
  | .ok v => match v.getObjVal? "ok" with
    | .ok x => some x
    | .error _ => none
  | .error _ => none

def specOn {α} (j : Json) (parse : Json → Except String α) (spec : α → Bool) : Except String Json :=
  match implOk j with
  | some x => do return Json.bool (spec (← parse x))
  | none => .ok Json.null

def idxVal (j : Json) : Except String IdxVal := do
  match j with
  | .str "falsy" => return .falsy
  | .str _ => return .junk
  | _ =>
    match j.getObjVal? "d" with
    | .ok d => return .date (← Date.fromJson d)
    | .error _ =>
      match j.getObjVal? "m" with
      | .ok m => return .md (← Metadata.fromJson m)
      | .error _ =>
        let a ← (← j.getObjVal? "s").getArr?
        if a.size != 2 then throw "slice: want [start, stop]"
        return .slice (← optFromJson Date.fromJson a[0]!) (← optFromJson Date.fromJson a[1]!)

/-- `{"int": n}` | `{"pos": [i, j, k]}` | `{"tuple": [component, …]}` | `"nolen"` -/
def indexFromJson (j : Json) : Except String Index := do
  match j with
  | .str _ => return .noLen
  | _ =>
    match j.getObjVal? "int" with
    | .ok n => return .int (← jInt? n)
    | .error _ =>
      match j.getObjVal? "pos" with
      | .ok a =>
        let a ← a.getArr?
        if a.size != 3 then throw "pos: want [i, j, k]"
        return .slice (← optFromJson jInt? a[0]!) (← optFromJson jInt? a[1]!) (← optFromJson jInt? a[2]!)
      | .error _ =>
        return .tuple (← (← (← j.getObjVal? "tuple").getArr?).toList.mapM idxVal)

/-- the implementation's exception class when it raised: `impl = {"err": name}` -/
def implErr (j : Json) : Option String :=
  match j.getObjVal? "impl" with
  | .ok v => match v.getObjVal? "err" with
    | .ok (.str x) => some x
    | _ => none
  | .error _ => none

/-- the Spec verdict on the implementation's answer to `receiver[index]` (`null`: the Spec does not
speak about this index shape — stepped positional slices, malformed tuples: model comparison only) -/
def indexSpec (isSlice : Bool) (t : List Cell) (ix : Index) (j : Json) : Except String Json := do
  match ix with
  | .int i =>
    match implErr j with
    | some e => return Json.bool (e == "IndexError" && Spec.C11.intItemRefused t i)
    | none => specOn j itemFromJson (fun out => Spec.C11.intItemSpec t i out && !Spec.C11.intItemRefused t i)
  | .slice i j' none => specOn j itemFromJson (Spec.C11.posSliceSpec t i j')
  | .tuple [p, e, m] =>
    if isSlice || p.toDateIdx == .bad || e.toDateIdx == .bad then return Json.null
    specOn j itemFromJson (Spec.C11.getItemSpec t p.toDateIdx e.toDateIdx m.toMetaIdx)
  | .tuple [p, e] =>
    if !isSlice || p.toDateIdx == .bad || e.toDateIdx == .bad then return Json.null
    specOn j itemFromJson (Spec.C11.sliceItemSpec t p.toDateIdx e.toDateIdx)
  | _ => return Json.null

def result (model spec : Json) : Json := Json.mkObj [("model", model), ("spec", spec)]

def handleOp (t : List Cell) (j : Json) : Except String Json := do
  match (← (← j.getObjVal? "op").getStr?) with
  | "clip" =>
    let a ← clipArgs j
    return result (exceptToJson cellsToJson (Triangle.clipFull t a))
      (← specOn j cellsFromJson (Spec.C11.clipSpec t a))
  | "filter" =>
    let mask ← (← (← j.getObjVal? "mask").getArr?).toList.mapM (·.getBool?)
    return result (exceptToJson cellsToJson (Triangle.filterMask t mask))
      (← specOn j cellsFromJson (fun out => out == maskKeep t mask))
  | "partition" =>
    let a ← cellsFromJson (← j.getObjVal? "a")
    let b ← cellsFromJson (← j.getObjVal? "b")
    return result Json.null (Json.bool (Spec.C11.partitions t a b))
  | "select" =>
    let keys ← strList (← j.getObjVal? "keys")
    return result (exceptToJson cellsToJson (Triangle.select t keys))
      (← specOn j cellsFromJson (Spec.C11.selectSpec t keys))
  | "rightEdge" =>
    return result (exceptToJson cellsToJson (Triangle.rightEdge t))
      (← specOn j cellsFromJson (Spec.C11.rightEdgeSpec t))
  | "slices" =>
    return result (groupsToJson Metadata.toJson (Triangle.slices t))
      (← specOn j (groupsFromJson Metadata.fromJson) (Spec.C11.slicesSpec t))
  | "split" =>
    let keys ← strList (← j.getObjVal? "keys")
    return result (exceptToJson (groupsToJson mvalsToJson) (Triangle.split t keys))
      (← specOn j (groupsFromJson mvalsFromJson) (Spec.C11.splitSpec t keys))
  | "getItem" =>
    let p ← dateIdx (← j.getObjVal? "p")
    let e ← dateIdx (← j.getObjVal? "e")
    let m ← metaIdx (← j.getObjVal? "m")
    return result (exceptToJson itemToJson (Triangle.getItem t p e m))
      (← specOn j itemFromJson (Spec.C11.getItemSpec t p e m))
  | "index" =>
    let isSlice := (← (← j.getObjVal? "recv").getStr?) == "S"
    let ix ← indexFromJson (← j.getObjVal? "idx")
    let model := if isSlice then TriangleSlice.getItemAny t ix else Triangle.getItemAny t ix
    return result (exceptToJson itemToJson model) (← indexSpec isSlice t ix j)
  | "sliceOf" =>
    let cells ← match optField j "cells" with
      | some cs => cellsFromJson cs
      | none => pure t
    let spec := match implErr j with
      | some e => .ok (Json.bool (e == "TriangleError" && Spec.C11.sliceOfRefused cells))
      | none => specOn j cellsFromJson
          (fun out => Spec.C11.sliceOfSpec cells out && !Spec.C11.sliceOfRefused cells)
    return result (exceptToJson cellsToJson (TriangleSlice.ofCells cells)) (← spec)
  | "sliceToTriangle" =>
    return result (exceptToJson cellsToJson (sliceToTriangle t))
      (← specOn j cellsFromJson (Spec.C11.exactly t (fun _ => true)))
  | "ragged" =>
    return result (exceptToJson Json.bool (Triangle.isRightEdgeRagged t))
      (← specOn j (fun x => x.getBool?) (Spec.C11.raggedSpec t))
  | "extract" =>
    let f ← (← j.getObjVal? "field").getStr?
    return result (Json.arr ((Triangle.extract t f).map Val.toJson).toArray)
      (← specOn j (fun x => do (← x.getArr?).toList.mapM Val.fromJson) (Spec.C11.extractSpec t f))
  | "extractOrd" =>
    return result (Json.arr ((Triangle.extractWith t (fun c => c.ev.ordinal)).map
      (fun (i : Int) => Json.num (JsonNumber.fromInt i))).toArray) Json.null
  | o => throw s!"unknown op {o}"

def handle (j : Json) : Except String Json := do
  let cells ← cellsFromJson (← j.getObjVal? "cells")
  let ops ← (← j.getObjVal? "ops").getArr?
  -- "ctor": "slice" — the receiver is a `TriangleSlice(cells)`
  let isSlice := match j.getObjVal? "ctor" with
    | .ok (.str "slice") => true
    | _ => false
  match (if isSlice then TriangleSlice.ofCells cells else Triangle.ofCells cells) with
  | .error e => return Json.mkObj [("t", Json.mkObj [("err", Json.str e.name)]), ("results", Json.arr #[])]
  | .ok t =>
    let rs ← ops.toList.mapM (handleOp t)
    return Json.mkObj [("t", Json.mkObj [("ok", cellsToJson t)]), ("results", Json.arr rs.toArray)]

def main : IO Unit := serve handle
