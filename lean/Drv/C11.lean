-- driver stub for C11: replaced by the real line-protocol driver
def main : IO Unit := pure ()
