/-
Driver of C12 (date arithmetic). One JSON request per line, batches inside a request.

  {"op":"addMonths","items":[[y,m,d,"n/d"],..]}                     -> {"model":[[y,m,d],..]}
  {"op":"inverse","items":[[py,pm,pd,ey,em,ed],..],"impl":[[y,m,d]|null,..]}
        -> {"lag":["n/d",..],"model":[[y,m,d],..],"spec":[bool|null,..]}
  {"op":"intShift","items":[[y,m,d,k],..],"impl":[[y,m,d]|null,..]}
        -> {"model":[[y,m,d],..],"spec":[bool|null,..],"day":[bool|null,..]}
        spec = Spec.intShiftOk; day = Spec.intShiftDayOk (year, month AND day by the closed form) where the target month
        is from 1970 on (null before: only month ends are determined there, finding D8)
  {"op":"devLag","items":[[py,pm,pd,ey,em,ed,"unit"],..],"impl":["n/d"|null,..],"back":[[y,m,d]|null,..]}
        -> {"model":["n/d"|null,..],"spec":[bool|null,..],"inverse":[bool|null,..]}   (null model: unit refused)
        back (optional, month units) = add_months(period_end, the lag the implementation returned);
        inverse = Spec.cellLagInverseOk where the model's law holds (evaluation date from 1970 on, or a month end)
  {"op":"devLagExt","items":[[py,pm,pd,ey,em,ed,"unit"],..],"impl":[[lag, back],..]}
        lag = ["fin","n/d"] | "inf" | "tdmax" | null (unit refused); back = add_months(pe, lag) as [y,m,d] | null
        -> {"model":[[lag, back],..],"spec":[bool|null,..]}   (calculateDevLagExt / addMonthsExt: the date.max
        sentinel; spec = the inverse law `back == evaluation date` where the lag is inf)
  {"op":"monthId","items":[[y,m,d],..],"impl":[[id,[first],[last]]|null,..]}
        -> {"model":[[id,[first],[last]],..],"spec":[bool|null,..]}
  {"op":"idToMonth","items":[[id,beginning],..],"impl":[[y,m,d]|null,..]}
        -> {"model":[[y,m,d],..],"spec":[..]}
  {"op":"resolution","items":[[y,m,d,q,"units",negative],..],"impl":[[y,m,d]|null,..]}
        -> {"model":[{"std":[q,"month"|"day"],"res":[y,m,d]}|{"err":"ValueError"},..],"spec":[..]}
  {"op":"compose","items":[[y,m,d,j,k],..],"impl":[[[r2],[back]]|null,..]}
        r2 = add_months(add_months(d, j), k), back = add_months(add_months(d, k), -k) — two calls each
        -> {"model":[[[r2],[back]],..],"spec":[bool|null,..]}   spec = Spec.composeOk ∧ Spec.undoOk for month-end d, else null
  {"op":"resolutionRaw","items":[[y,m,d,q,"raw units",negative],..],"impl":[[y,m,d]|null,..]}
        resolution_delta called with the caller's RAW unit string (no standardize_resolution)
        -> {"model":[[y,m,d],..],"spec":[bool|null,..]}   spec: "month" -> intShiftOk (+ day), a day spelling ("day","days")
        -> dayDeltaOk; any other raw unit: null (model comparison only: the function does day arithmetic, unscaled)
  {"op":"enum", "kmin":a,"kmax":b,"idlo":l,"idhi":h, and one of
        "dates":[[y,m,d],..] | "from":[y,m,d],"n":count | "monthEnds":[idFrom,idTo]}
        -> {"rows":[[y,m,d,count,s1,s2],..]}
     one digest per start date over every integer k in [kmin,kmax] with idlo <= monthId(d)+k <= idhi:
     count, s1 = sum ord(r_k), s2 = sum (k-kmin+1)*ord(r_k), r_k = addMonths d k, ord = Date.ordinal
  {"op":"row","d":[y,m,d],"kmin","kmax","idlo","idhi"} -> {"ks":[k,..],"res":[[y,m,d],..]}
-/
import Bermuda.Model.Json
import Bermuda.Model.DateUtils
import Bermuda.Model.DateUtilsExt
import Bermuda.Spec.C12
open Lean Bermuda

def arr? (j : Json) (k : String) : Except String (Array Json) := do (← j.getObjVal? k).getArr?

def int? (j : Json) (k : String) : Except String Int := do jInt? (← j.getObjVal? k)

/-- dates at positions `i, i+1, i+2` of a flat item -/
def dateAt (a : Array Json) (i : Nat) : Except String Date := do
  return ⟨← jInt? a[i]!, ← a[i+1]!.getNat?, ← a[i+2]!.getNat?⟩

def implAt (impl : Option (Array Json)) (i : Nat) : Json :=
  match impl with
  | some a => a[i]?.getD Json.null
  | none => Json.null

def optImpl (j : Json) : Option (Array Json) :=
  match arr? j "impl" with
  | .ok a => some a
  | .error _ => none

def specOn (impl : Json) (f : Json → Except String Bool) : Except String Json :=
  if impl.isNull then return Json.null else return Json.bool (← f impl)

def ksFor (d : Date) (kmin kmax idlo idhi : Int) : Int × Int :=
  let id := monthToId d
  (max kmin (idlo - id), min kmax (idhi - id))

/-- digest of one start date -/
def digest (d : Date) (kmin kmax idlo idhi : Int) : Json := Id.run do
  let (lo, hi) := ksFor d kmin kmax idlo idhi
  let mut cnt : Nat := 0
  let mut s1 : Int := 0
  let mut s2 : Int := 0
  let n := (hi - lo + 1).toNat
  for i in [0:n] do
    let k : Int := lo + i
    let o := (addMonths d (k : Rat)).ordinal
    cnt := cnt + 1
    s1 := s1 + o
    s2 := s2 + (k - kmin + 1) * o
  return Json.arr #[Json.num (JsonNumber.fromInt d.y), (d.m : Nat), (d.d : Nat), (cnt : Nat),
                    Json.num (JsonNumber.fromInt s1), Json.num (JsonNumber.fromInt s2)]

def unitOf (s : String) : Option LagUnit := LagUnit.parse? s

def lagExtToJson : Option LagExt → Json
  | none => Json.null
  | some .inf => Json.str "inf"
  | some .tdMax => Json.str "tdmax"
  | some (.fin q) => Json.arr #[Json.str "fin", ratToJson q]

def handle (j : Json) : Except String Json := do
  let op ← (← j.getObjVal? "op").getStr?
  match op with
  | "addMonths" =>
    let items ← arr? j "items"
    let out ← items.mapM fun it => do
      let a ← it.getArr?
      let d ← dateAt a 0
      let q ← ratFromJson a[3]!
      return (addMonths d q).toJson
    return Json.mkObj [("model", Json.arr out)]
  | "inverse" =>
    let items ← arr? j "items"
    let impl := optImpl j
    let mut lags := #[]
    let mut model := #[]
    let mut spec := #[]
    for i in [0:items.size] do
      let a ← items[i]!.getArr?
      let p ← dateAt a 0
      let e ← dateAt a 3
      let lag := devLagMonths p e
      lags := lags.push (ratToJson lag)
      model := model.push (addMonths p lag).toJson
      spec := spec.push (← specOn (implAt impl i) fun r => do return Spec.inverseOk e (← Date.fromJson r))
    return Json.mkObj [("lag", Json.arr lags), ("model", Json.arr model), ("spec", Json.arr spec)]
  | "intShift" =>
    let items ← arr? j "items"
    let impl := optImpl j
    let mut model := #[]
    let mut spec := #[]
    let mut day := #[]
    for i in [0:items.size] do
      let a ← items[i]!.getArr?
      let d ← dateAt a 0
      let k ← jInt? a[3]!
      model := model.push (addMonths d (k : Rat)).toJson
      spec := spec.push (← specOn (implAt impl i) fun r => do return Spec.intShiftOk d k (← Date.fromJson r))
      day := day.push (← if 0 ≤ monthToId d + k && d.valid
        then specOn (implAt impl i) fun r => do return Spec.intShiftDayOk d k (← Date.fromJson r)
        else pure Json.null)
    return Json.mkObj [("model", Json.arr model), ("spec", Json.arr spec), ("day", Json.arr day)]
  | "devLag" =>
    let items ← arr? j "items"
    let impl := optImpl j
    let back := match arr? j "back" with | .ok a => some a | .error _ => none
    let mut model := #[]
    let mut spec := #[]
    let mut inverse := #[]
    for i in [0:items.size] do
      let a ← items[i]!.getArr?
      let pe ← dateAt a 0
      let ev ← dateAt a 3
      let u ← a[6]!.getStr?
      match unitOf u with
      | none =>
        model := model.push Json.null
        spec := spec.push Json.null
        inverse := inverse.push Json.null
      | some un =>
        inverse := inverse.push (← if un == .month && ev.valid && (1970 ≤ ev.y || ev.isMonthEnd)
          then specOn (implAt back i) fun r => do return Spec.cellLagInverseOk ev (← Date.fromJson r)
          else pure Json.null)
        let c : Cell := { ps := pe, pe := pe, ev := ev }
        model := model.push (ratToJson (c.devLag un))
        spec := spec.push (← specOn (implAt impl i) fun r => do
          let q ← ratFromJson r
          match un with
          | .month =>
            if pe.isMonthEnd && ev.isMonthEnd then return Spec.monthEndLagOk pe ev q else return true
          | _ => return q.den == 1 && Spec.dayLagOk pe ev q.num)
    return Json.mkObj [("model", Json.arr model), ("spec", Json.arr spec), ("inverse", Json.arr inverse)]
  | "devLagExt" =>
    let items ← arr? j "items"
    let impl := optImpl j
    let mut model := #[]
    let mut spec := #[]
    for i in [0:items.size] do
      let a ← items[i]!.getArr?
      let pe ← dateAt a 0
      let ev ← dateAt a 3
      let u ← a[6]!.getStr?
      let lag := calculateDevLagExt pe ev u
      let back : Json := match lag.bind (addMonthsExt pe) with
        | some d => d.toJson
        | none => Json.null
      model := model.push (Json.arr #[lagExtToJson lag, back])
      spec := spec.push (← specOn (implAt impl i) fun r => do
        let ra ← r.getArr?
        -- the inverse law on the sentinel: an infinite lag added to the period end gives the evaluation date
        if ra[0]! == Json.str "inf" then
          if ra[1]!.isNull then return false else return Spec.inverseOk ev (← Date.fromJson ra[1]!)
        else return true)
    return Json.mkObj [("model", Json.arr model), ("spec", Json.arr spec)]
  | "monthId" =>
    let items ← arr? j "items"
    let impl := optImpl j
    let mut model := #[]
    let mut spec := #[]
    for i in [0:items.size] do
      let a ← items[i]!.getArr?
      let d ← dateAt a 0
      let id := monthToId d
      model := model.push (Json.arr #[Json.num (JsonNumber.fromInt id), (idToMonth id true).toJson,
                                       (idToMonth id false).toJson])
      spec := spec.push (← specOn (implAt impl i) fun r => do
        let ra ← r.getArr?
        let iid ← jInt? ra[0]!
        let f ← Date.fromJson ra[1]!
        let l ← Date.fromJson ra[2]!
        return Spec.monthIdOk d iid && Spec.firstDayOk d f && Spec.lastDayOk d l)
    return Json.mkObj [("model", Json.arr model), ("spec", Json.arr spec)]
  | "idToMonth" =>
    let items ← arr? j "items"
    let impl := optImpl j
    let mut model := #[]
    let mut spec := #[]
    for i in [0:items.size] do
      let a ← items[i]!.getArr?
      let id ← jInt? a[0]!
      let b ← a[1]!.getBool?
      model := model.push (idToMonth id b).toJson
      spec := spec.push (← specOn (implAt impl i) fun r => do return Spec.idToMonthOk id b (← Date.fromJson r))
    return Json.mkObj [("model", Json.arr model), ("spec", Json.arr spec)]
  | "resolution" =>
    let items ← arr? j "items"
    let impl := optImpl j
    let mut model := #[]
    let mut spec := #[]
    for i in [0:items.size] do
      let a ← items[i]!.getArr?
      let d ← dateAt a 0
      let q ← jInt? a[3]!
      let u ← a[4]!.getStr?
      let neg ← a[5]!.getBool?
      match standardizeResolution q u with
      | .error e =>
        model := model.push (Json.mkObj [("err", Json.str e.name)])
        spec := spec.push Json.null
      | .ok (q', ru) =>
        let r := resolutionDelta d q' ru neg
        let us := match ru with | .month => "month" | .day => "day"
        model := model.push (Json.mkObj [("std", Json.arr #[Json.num (JsonNumber.fromInt q'), Json.str us]),
                                         ("res", r.toJson)])
        spec := spec.push (← specOn (implAt impl i) fun rj => do
          let ri ← Date.fromJson rj
          match ru with
          | .day => return Spec.dayDeltaOk d q' neg ri
          | .month =>
            let k := if neg then -q' else q'
            return Spec.intShiftOk d k ri && (!(0 ≤ monthToId d + k && d.valid) || Spec.intShiftDayOk d k ri))
    return Json.mkObj [("model", Json.arr model), ("spec", Json.arr spec)]
  | "compose" =>
    let items ← arr? j "items"
    let impl := optImpl j
    let mut model := #[]
    let mut spec := #[]
    for i in [0:items.size] do
      let a ← items[i]!.getArr?
      let d ← dateAt a 0
      let jj ← jInt? a[3]!
      let k ← jInt? a[4]!
      let r2 := addMonths (addMonths d (jj : Rat)) (k : Rat)
      let back := addMonths (addMonths d (k : Rat)) ((-k : Int) : Rat)
      model := model.push (Json.arr #[r2.toJson, back.toJson])
      spec := spec.push (← if d.valid && d.isMonthEnd
        then specOn (implAt impl i) fun r => do
          let ra ← r.getArr?
          return Spec.composeOk d jj k (← Date.fromJson ra[0]!) && Spec.undoOk d (← Date.fromJson ra[1]!)
        else pure Json.null)
    return Json.mkObj [("model", Json.arr model), ("spec", Json.arr spec)]
  | "resolutionRaw" =>
    let items ← arr? j "items"
    let impl := optImpl j
    let mut model := #[]
    let mut spec := #[]
    for i in [0:items.size] do
      let a ← items[i]!.getArr?
      let d ← dateAt a 0
      let q ← jInt? a[3]!
      let u ← a[4]!.getStr?
      let neg ← a[5]!.getBool?
      model := model.push (resolutionDeltaRaw d q u neg).toJson
      let k := if neg then -q else q
      spec := spec.push (← if u == "month"
        then specOn (implAt impl i) fun r => do
          let ri ← Date.fromJson r
          return Spec.intShiftOk d k ri && (!(0 ≤ monthToId d + k && d.valid) || Spec.intShiftDayOk d k ri)
        else if u == "day" || u == "days"
        then specOn (implAt impl i) fun r => do return Spec.dayDeltaOk d q neg (← Date.fromJson r)
        else pure Json.null)
    return Json.mkObj [("model", Json.arr model), ("spec", Json.arr spec)]
  | "enum" =>
    let kmin ← int? j "kmin"
    let kmax ← int? j "kmax"
    let idlo ← int? j "idlo"
    let idhi ← int? j "idhi"
    let mut rows := #[]
    match j.getObjVal? "dates" with
    | .ok ds =>
      for it in (← ds.getArr?) do
        rows := rows.push (digest (← Date.fromJson it) kmin kmax idlo idhi)
    | .error _ =>
      match j.getObjVal? "monthEnds" with
      | .ok me =>
        let a ← me.getArr?
        let lo ← jInt? a[0]!
        let hi ← jInt? a[1]!
        for i in [0:(hi - lo + 1).toNat] do
          rows := rows.push (digest (idToMonth (lo + i) false) kmin kmax idlo idhi)
      | .error _ =>
        let mut d ← Date.fromJson (← j.getObjVal? "from")
        let n ← (← j.getObjVal? "n").getNat?
        for _ in [0:n] do
          rows := rows.push (digest d kmin kmax idlo idhi)
          d := d.succ
    return Json.mkObj [("rows", Json.arr rows)]
  | "row" =>
    let d ← Date.fromJson (← j.getObjVal? "d")
    let kmin ← int? j "kmin"
    let kmax ← int? j "kmax"
    let idlo ← int? j "idlo"
    let idhi ← int? j "idhi"
    let (lo, hi) := ksFor d kmin kmax idlo idhi
    let mut ks := #[]
    let mut res := #[]
    for i in [0:(hi - lo + 1).toNat] do
      let k : Int := lo + i
      ks := ks.push (Json.num (JsonNumber.fromInt k))
      res := res.push (addMonths d (k : Rat)).toJson
    return Json.mkObj [("ks", Json.arr ks), ("res", Json.arr res)]
  | o => throw s!"unknown op {o}"

def main : IO Unit := serve handle
