-- driver stub for C12: replaced by the real line-protocol driver
def main : IO Unit := pure ()
