import Bermuda.Model.Json
import Bermuda.Model.Accessors
import Bermuda.Model.AccessorsExt
import Bermuda.Spec.C13
import Bermuda.Spec.C13Ext
open Lean Bermuda

/-! Line-protocol driver for C13. One request per triangle:
`{"cells":[...], "units":["month",...], "impl":{accessor: output, ...}}` →
`{"t":…, "model":{accessor: output}, "spec":{clause: bool|null}, "taxonomy":{…}}`. -/

def intJ (i : Int) : Json := Json.num (JsonNumber.fromInt i)
def listJ {α} (f : α → Json) (l : List α) : Json := Json.arr (l.map f).toArray
def periodJ (p : Period) : Json := Json.arr #[p.1.toJson, p.2.toJson]
def countsJ (l : List (String × Nat)) : Json := listJ (fun (p : String × Nat) => Json.arr #[Json.str p.1, (p.2 : Nat)]) l

def listF {α} (f : Json → Except String α) (j : Json) : Except String (List α) := do
  (← j.getArr?).toList.mapM f

def periodF (j : Json) : Except String Period := do
  let a ← j.getArr?
  if a.size != 2 then throw "period: want [start, end]"
  return (← Date.fromJson a[0]!, ← Date.fromJson a[1]!)

def countsF (j : Json) : Except String (List (String × Nat)) :=
  listF (fun e => do
    let a ← e.getArr?
    if a.size != 2 then throw "count: want [field, n]"
    return (← a[0]!.getStr?, ← a[1]!.getNat?)) j

/-- `impl[k]` when present and non-null; for accessors that may raise, `impl[k] = {"ok": x}` -/
def implVal (impl : Json) (k : String) (wrapped : Bool := false) : Option Json :=
  match impl.getObjVal? k with
  | .ok v =>
    if v.isNull then none
    else if wrapped then
      match v.getObjVal? "ok" with
      | .ok x => some x
      | .error _ => none
    else some v
  | .error _ => none

def specOn {α} (impl : Json) (k : String) (wrapped : Bool) (parse : Json → Except String α)
    (spec : α → Bool) : Except String Json :=
  match implVal impl k wrapped with
  | some x => do return Json.bool (spec (← parse x))
  | none => .ok Json.null

def optIntJ : Option Int → Json
  | none => Json.null
  | some i => intJ i

def optIntF (j : Json) : Except String (Option Int) :=
  if j.isNull then .ok none else (jInt? j).map some

def rowJ (p : SliceRowKey × List Cell) : Json := Json.arr #[p.1.1.toJson, periodJ p.1.2, cellsToJson p.2]

def rowF (j : Json) : Except String (SliceRowKey × List Cell) := do
  let a ← j.getArr?
  if a.size != 3 then throw "row: want [metadata, period, cells]"
  return ((← Metadata.fromJson a[0]!, ← periodF a[1]!), ← cellsFromJson a[2]!)

def handle (j : Json) : Except String Json := do
  let cells ← cellsFromJson (← j.getObjVal? "cells")
  let units ← listF (·.getStr?) (← j.getObjVal? "units")
  let impl := (j.getObjVal? "impl").toOption.getD Json.null
  match Triangle.ofCells cells with
  | .error e => return Json.mkObj [("t", Json.mkObj [("err", Json.str e.name)])]
  | .ok t =>
    let metas := Triangle.metadata t
    let perUnit (f : Option LagUnit → Json) : Json :=
      Json.mkObj (units.map fun u => (u, f (LagUnit.parse? u)))
    let model := Json.mkObj [
      ("periods", listJ periodJ (Triangle.periods t)),
      ("evaluation_dates", listJ Date.toJson (Triangle.evaluationDates t)),
      ("evaluation_date", exceptToJson Date.toJson (Triangle.evaluationDate t)),
      ("dev_lags", perUnit fun u => exceptToJson (listJ ratToJson) (Triangle.devLags t u)),
      ("fields", listJ Json.str (Triangle.fields t)),
      ("metadata", listJ Metadata.toJson metas),
      ("field_cell_counts", countsJ (Triangle.fieldCellCounts t)),
      ("field_slice_counts", countsJ (Triangle.fieldSliceCounts t)),
      ("num_samples", exceptToJson (fun (n : Nat) => (n : Json)) (Triangle.numSamples t)),
      ("experience_gaps", listJ periodJ (Triangle.experienceGaps t)),
      ("common_metadata", exceptToJson Metadata.toJson (Triangle.commonMetadata t)),
      ("metadata_differences", exceptToJson (listJ Metadata.toJson) (Triangle.metadataDifferences t)),
      ("is_disjoint", Json.bool (Triangle.isDisjoint t)),
      ("is_slicewise_disjoint", Json.bool (Triangle.isSlicewiseDisjoint t)),
      ("slice_period_rows", listJ rowJ (Triangle.slicePeriodRows t)),
      ("is_semi_regular", perUnit fun u => exceptToJson Json.bool (Triangle.isSemiRegular t u)),
      ("is_regular", perUnit fun u => exceptToJson Json.bool (Triangle.isRegular t u)),
      ("period_resolution", exceptToJson optIntJ (Triangle.periodResolution t)),
      ("eval_date_resolution", exceptToJson optIntJ (Triangle.evalDateResolution t))]
    -- the independent taxonomy (Spec definitions), to be compared with the implementation's booleans
    let taxonomy := Json.mkObj [
      ("is_disjoint", Json.bool (Spec.C13.disjoint t)),
      ("is_slicewise_disjoint", Json.bool (Spec.C13.slicewiseDisjoint t)),
      ("is_semi_regular", perUnit fun u => match u with
        | some u => Json.bool (Spec.C13.semiRegular t u)
        | none => Json.null),
      ("is_regular", perUnit fun u => match u with
        | some u => Json.bool (Spec.C13.regular t u)
        | none => Json.null)]
    -- Spec predicates on the implementation's outputs
    let lagSpecs ← units.mapM fun u => do
      match LagUnit.parse? u, (impl.getObjVal? "dev_lags").toOption.bind (implVal · u true) with
      | some lu, some x =>
        let out ← listF ratFromJson x
        pure (u, Json.bool (Spec.C13.sortedDistinct ratCmp (t.map (·.devLag lu)) out))
      | _, _ => pure (u, Json.null)
    let implMetas : Option (List Metadata) :=
      (implVal impl "metadata").bind fun x => (listF Metadata.fromJson x).toOption
    let spec := Json.mkObj [
      ("periods", ← specOn impl "periods" false (listF periodF)
        (Spec.C13.sortedDistinct periodCmp (t.map Cell.period))),
      ("evaluation_dates", ← specOn impl "evaluation_dates" false (listF Date.fromJson)
        (Spec.C13.sortedDistinct Date.cmp (t.map (·.ev)))),
      ("evaluation_date", ← specOn impl "evaluation_date" true Date.fromJson
        (fun d => t.any (·.ev == d) && t.all (·.ev ≤ d))),
      ("dev_lags", Json.mkObj lagSpecs),
      ("fields", ← specOn impl "fields" false (listF (·.getStr?))
        (Spec.C13.sortedDistinct strCmp (t.flatMap (·.values.keys)))),
      ("metadata", ← specOn impl "metadata" false (listF Metadata.fromJson)
        (Spec.C13.sortedDistinct Metadata.cmp (t.map (·.md)))),
      ("field_cell_counts", ← specOn impl "field_cell_counts" false countsF
        (Spec.C13.countsSpec (fun (c : Cell) => c.values.keys) t (t.flatMap (·.values.keys)))),
      ("field_slice_counts", ← specOn impl "field_slice_counts" false countsF
        (Spec.C13.countsSpec (fun (m : Metadata) => (t.filter (·.md == m)).flatMap (·.values.keys))
          (t.map (·.md)).eraseDups (t.flatMap (·.values.keys)))),
      ("num_samples", match impl.getObjVal? "num_samples" with
        | .ok v => match v.getObjVal? "ok" with
          | .ok x => match x.getNat? with
            | .ok n => Json.bool (Spec.C13.numSamplesSpec t (some n))
            | .error _ => Json.null
          | .error _ => Json.bool (Spec.C13.numSamplesSpec t none)
        | .error _ => Json.null),
      ("experience_gaps", ← specOn impl "experience_gaps" false (listF periodF)
        (fun out => !Spec.C13.disjoint t || Spec.C13.gapsSpec t out)),
      ("common_metadata", ← specOn impl "common_metadata" true Metadata.fromJson
        (Spec.C13.commonSpec (t.map (·.md)).eraseDups)),
      ("metadata_differences", ←
        match implVal impl "common_metadata" true, implMetas with
        | some c, some ms => do
          let c ← Metadata.fromJson c
          specOn impl "metadata_differences" true (listF Metadata.fromJson) (Spec.C13.recombineSpec ms c)
        | _, _ => pure Json.null),
      ("is_slicewise_disjoint", ← specOn impl "is_slicewise_disjoint" false (·.getBool?)
        (Spec.C13.slicewiseDisjointSpec t)),
      ("slice_period_rows", ← specOn impl "slice_period_rows" false (listF rowF) (Spec.C13.rowsSpec t)),
      ("period_resolution", ← specOn impl "period_resolution" true optIntF (Spec.C13.periodResolutionSpec t)),
      ("eval_date_resolution", ← specOn impl "eval_date_resolution" true optIntF (Spec.C13.evalResolutionSpec t))]
    return Json.mkObj [("t", Json.mkObj [("ok", cellsToJson t)]), ("model", model), ("spec", spec),
                       ("taxonomy", taxonomy)]

def main : IO Unit := serve handle
