-- driver stub for C13: replaced by the real line-protocol driver
def main : IO Unit := pure ()
