-- driver stub for C14: replaced by the real line-protocol driver
def main : IO Unit := pure ()
