import Bermuda.Model.Json
import Bermuda.Model.Frame
import Bermuda.Spec.C14
open Lean Bermuda Bermuda.Frame

/-! Driver for C14. Table wire: {"cols":[…], "rows":[[[col, MVal]…]…]} -/

def rowToJson (r : Row) : Json := dictToJson MVal.toJson r
def rowFromJson (j : Json) : Except String Row := dictFromJson MVal.fromJson j

def tableToJson (t : Table) : Json :=
  Json.mkObj [("cols", Json.arr (t.cols.map Json.str).toArray), ("rows", Json.arr (t.rows.map rowToJson).toArray)]

def tableFromJson (j : Json) : Except String Table := do
  return { cols := ← (← (← j.getObjVal? "cols").getArr?).toList.mapM (·.getStr?),
           rows := ← (← (← j.getObjVal? "rows").getArr?).toList.mapM rowFromJson }

def strList (j : Json) (k : String) : Except String (List String) := do
  match j.getObjVal? k with
  | .ok v => if v.isNull then pure [] else (← v.getArr?).toList.mapM (·.getStr?)
  | .error _ => pure []

def optField (j : Json) (k : String) : Option Json :=
  match j.getObjVal? k with
  | .ok v => if v.isNull then none else some v
  | .error _ => none

def exc {α} (f : α → Json) (e : Except Err α) : Json := exceptToJson f e

def natJ (n : Nat) : Json := Json.num (JsonNumber.fromNat n)
def intJ (i : Int) : Json := Json.num (JsonNumber.fromInt i)

def arrayRowsToJson (rs : List ArrayRow) : Json :=
  Json.arr (rs.map fun r => Json.arr #[r.period.toJson,
    Json.arr (r.entries.map fun e => Json.arr #[intJ e.1, Val.toJson e.2]).toArray]).toArray

def matrixToJson (m : Matrix) : Json :=
  Json.mkObj [
    ("slices", Json.arr (m.index.slices.map Metadata.toJson).toArray),
    ("fields", Json.arr (m.index.fields.map Json.str).toArray),
    ("exp_origin", intJ m.index.expOrigin), ("dev_origin", intJ m.index.devOrigin),
    ("exp_resolution", intJ m.index.expResolution), ("dev_resolution", intJ m.index.devResolution),
    ("shape", Json.arr #[natJ m.index.slices.length, natJ m.index.fields.length, natJ m.nPeriods, natJ m.nDevs]),
    ("incremental", m.incremental),
    ("entries", Json.arr (m.entries.map fun e =>
      Json.arr #[natJ e.1.1, natJ e.1.2.1, natJ e.1.2.2.1, natJ e.1.2.2.2, ratToJson e.2]).toArray)]

def handle (j : Json) : Except String Json := do
  let op ← (← j.getObjVal? "op").getStr?
  let t ← cellsFromJson (← j.getObjVal? "cells")
  match op with
  | "wide" | "long" =>
    let long := op == "long"
    let fieldCols ← strList j "field_cols"
    let detailCols ← strList j "detail_cols"
    let lossCols ← strList j "loss_detail_cols"
    let read (tb : Table) : Except Err (List Cell) :=
      if long then fromLongRows tb lossCols else fromWideRows tb fieldCols detailCols lossCols
    let mt := if long then toLongRows t else toWideRows t
    let back := mt.bind read
    let implBack ← match optField j "impl_table" with
      | some v => do pure (exc cellsToJson (read (← tableFromJson v)))
      | none => pure Json.null
    let spec ← match optField j "impl_loaded" with
      | some v => do
        let out ← cellsFromJson v
        pure (Json.mkObj [
          ("roundtrip", if long && lossCols.isEmpty then Spec.C14.longSpec t out else Spec.C14.wideSpec t out),
          ("slices", Spec.C14.slicesSpec (long && lossCols.isEmpty) t out)])
      | none => pure Json.null
    let rowSpec ← match optField j "impl_nrows" with
      | some v => do pure (Json.bool (Spec.C14.rowCountSpec long t (← v.getNat?)))
      | none => pure Json.null
    return Json.mkObj [("table", exc tableToJson mt), ("back", exc cellsToJson back),
                       ("impl_table_back", implBack), ("spec", spec), ("rowspec", rowSpec)]
  | "array" =>
    let field ← (← j.getObjVal? "field").getStr?
    let md ← Metadata.fromJson (← j.getObjVal? "md")
    let res ← jInt? (← j.getObjVal? "res")
    let fr := toArrayFrame t field
    let backE := fr.bind fun rows => fromArrayFrame rows field md (some res)
    let backI := fr.bind fun rows => fromArrayFrame rows field md none
    let spec (k : String) : Except String Json := match optField j k with
      | some v => do
        match v.getObjVal? "ok" with
        | .ok cs => pure (Json.bool (Spec.C14.backSpec t (← cellsFromJson cs)))
        | .error _ => pure (Json.bool false)
      | none => pure Json.null
    return Json.mkObj [("frame", exc arrayRowsToJson fr), ("back_explicit", exc cellsToJson backE),
                       ("back_inferred", exc cellsToJson backI),
                       ("spec_explicit", ← spec "impl_explicit"), ("spec_inferred", ← spec "impl_inferred")]
  | "matrix" =>
    let m := toMatrix t
    let back := m.bind fromMatrix
    let spec ← match optField j "impl_back" with
      | some v => do pure (Json.bool (Spec.C14.backSpec t (← cellsFromJson v)))
      | none => pure Json.null
    return Json.mkObj [("matrix", exc matrixToJson m), ("back", exc cellsToJson back), ("spec", spec)]
  | o => throw s!"unknown op {o}"

def main : IO Unit := serve handle
