import Bermuda.Model.Json
import Bermuda.Model.Frame
import Bermuda.Model.FrameRich
import Bermuda.Model.FrameStatics
import Bermuda.Model.FrameDF
import Bermuda.Spec.C14
open Lean Bermuda Bermuda.Frame

/-! Driver for C14. Table wire: {"cols":[…], "rows":[[[col, MVal]…]…]} -/

def rowToJson (r : Row) : Json := dictToJson MVal.toJson r
def rowFromJson (j : Json) : Except String Row := dictFromJson MVal.fromJson j

def tableToJson (t : Table) : Json :=
  Json.mkObj [("cols", Json.arr (t.cols.map Json.str).toArray), ("rows", Json.arr (t.rows.map rowToJson).toArray)]

def tableFromJson (j : Json) : Except String Table := do
  return { cols := ← (← (← j.getObjVal? "cols").getArr?).toList.mapM (·.getStr?),
           rows := ← (← (← j.getObjVal? "rows").getArr?).toList.mapM rowFromJson }

def strList (j : Json) (k : String) : Except String (List String) := do
  match j.getObjVal? k with
  | .ok v => if v.isNull then pure [] else (← v.getArr?).toList.mapM (·.getStr?)
  | .error _ => pure []

def optField (j : Json) (k : String) : Option Json :=
  match j.getObjVal? k with
  | .ok v => if v.isNull then none else some v
  | .error _ => none

def exc {α} (f : α → Json) (e : Except Err α) : Json := exceptToJson f e

def natJ (n : Nat) : Json := Json.num (JsonNumber.fromNat n)
def intJ (i : Int) : Json := Json.num (JsonNumber.fromInt i)

def arrayRowsToJson (rs : List ArrayRow) : Json :=
  Json.arr (rs.map fun r => Json.arr #[r.period.toJson,
    Json.arr (r.entries.map fun e => Json.arr #[intJ e.1, Val.toJson e.2]).toArray]).toArray

def matrixToJson (m : Matrix) : Json :=
  Json.mkObj [
    ("slices", Json.arr (m.index.slices.map Metadata.toJson).toArray),
    ("fields", Json.arr (m.index.fields.map Json.str).toArray),
    ("exp_origin", intJ m.index.expOrigin), ("dev_origin", intJ m.index.devOrigin),
    ("exp_resolution", intJ m.index.expResolution), ("dev_resolution", intJ m.index.devResolution),
    ("shape", Json.arr #[natJ m.index.slices.length, natJ m.index.fields.length, natJ m.nPeriods, natJ m.nDevs]),
    ("incremental", m.incremental),
    ("entries", Json.arr (m.entries.map fun e =>
      Json.arr #[natJ e.1.1, natJ e.1.2.1, natJ e.1.2.2.1, natJ e.1.2.2.2, ratToJson e.2]).toArray)]


/-! rich matrix wire: entry `[i,f,j,k, rval]`, rval `["p",val] | ["P",val] | ["d",id,val] | ["D",id,val] | ["m",id]` -/

def rvalToJson : RVal → Json
  | .plain v => Json.arr #["p", Val.toJson v]
  | .predicted v => Json.arr #["P", Val.toJson v]
  | .disagg id v => Json.arr #["d", natJ id, Val.toJson v]
  | .disaggPred id v => Json.arr #["D", natJ id, Val.toJson v]
  | .missing id => Json.arr #["m", natJ id]

def rvalFromJson (j : Json) : Except String RVal := do
  let a ← j.getArr?
  match a.toList with
  | [tag, v] =>
    match ← tag.getStr? with
    | "p" => return .plain (← Val.fromJson v)
    | "P" => return .predicted (← Val.fromJson v)
    | "m" => return .missing (← v.getNat?)
    | o => throw s!"bad rval tag {o}"
  | [tag, id, v] =>
    match ← tag.getStr? with
    | "d" => return .disagg (← id.getNat?) (← Val.fromJson v)
    | "D" => return .disaggPred (← id.getNat?) (← Val.fromJson v)
    | o => throw s!"bad rval tag {o}"
  | _ => throw "bad rval"

def indexToFields (ix : MatrixIndex) : List (String × Json) :=
  [("slices", Json.arr (ix.slices.map Metadata.toJson).toArray),
   ("fields", Json.arr (ix.fields.map Json.str).toArray),
   ("exp_origin", intJ ix.expOrigin), ("dev_origin", intJ ix.devOrigin),
   ("exp_resolution", intJ ix.expResolution), ("dev_resolution", intJ ix.devResolution)]

def richToJson (m : RichMatrix) : Json :=
  let nF := m.index.fields.length
  Json.mkObj (indexToFields m.index ++ [
    ("shape", Json.arr #[natJ m.index.slices.length, natJ nF, natJ m.nPeriods, natJ m.nDevs]),
    ("incremental", m.incremental),
    ("entries", Json.arr ((m.entries nF).map fun e =>
      Json.arr #[natJ e.1.1, natJ e.1.2.1, natJ e.1.2.2.1, natJ e.1.2.2.2, rvalToJson e.2]).toArray)])

def indexFromJson (j : Json) : Except String MatrixIndex := do
  return { slices := ← (← (← j.getObjVal? "slices").getArr?).toList.mapM Metadata.fromJson,
           fields := ← (← (← j.getObjVal? "fields").getArr?).toList.mapM (·.getStr?),
           expOrigin := ← jInt? (← j.getObjVal? "exp_origin"), devOrigin := ← jInt? (← j.getObjVal? "dev_origin"),
           expResolution := ← jInt? (← j.getObjVal? "exp_resolution"),
           devResolution := ← jInt? (← j.getObjVal? "dev_resolution") }

def richFromJson (j : Json) : Except String RichMatrix := do
  let ix ← indexFromJson j
  let shape ← (← (← j.getObjVal? "shape").getArr?).toList.mapM (·.getNat?)
  let es ← (← (← j.getObjVal? "entries").getArr?).toList.mapM fun e => do
    match (← e.getArr?).toList with
    | [a, b, c, d, v] => pure (((← a.getNat?), (← b.getNat?), (← c.getNat?), (← d.getNat?)), some (← rvalFromJson v))
    | _ => throw "bad entry"
  return { index := ix, nPeriods := shape[2]?.getD 0, nDevs := shape[3]?.getD 0, assigns := es,
           incremental := ← (← j.getObjVal? "incremental").getBool? }

def optInt (j : Json) (k : String) : Except String (Option Int) :=
  match optField j k with
  | some v => do pure (some (← jInt? v))
  | none => pure none

def optStrList (j : Json) (k : String) : Except String (Option (List String)) :=
  match optField j k with
  | some v => do pure (some (← (← v.getArr?).toList.mapM (·.getStr?)))
  | none => pure none

/-! frames of `io/array.py`: period entry `["d",[y,m,d]] | ["s","2020Q1"]` -/

def periodEntryFromJson (j : Json) : Except String PeriodEntry := do
  match (← j.getArr?).toList with
  | [tag, v] =>
    match ← tag.getStr? with
    | "d" => return .date (← Date.fromJson v)
    | "s" => return .text (← v.getStr?)
    | o => throw s!"bad period tag {o}"
  | _ => throw "bad period entry"

def valDictFromJson (j : Json) : Except String (Dict Val) := dictFromJson Val.fromJson j

def staticsRowsFromJson (j : Json) : Except String (List StaticsRow) := do
  (← j.getArr?).toList.mapM fun r => do
    match (← r.getArr?).toList with
    | [p, es] => pure { period := ← periodEntryFromJson p, entries := ← valDictFromJson es }
    | _ => throw "bad statics row"

def arrayFrameFromJson (j : Json) : Except String ArrayFrame := do
  let cols ← (← (← j.getObjVal? "cols").getArr?).toList.mapM (·.getStr?)
  let rows ← (← (← j.getObjVal? "rows").getArr?).toList.mapM fun r => do
    match (← r.getArr?).toList with
    | [p, vs] => pure ((← periodEntryFromJson p), (← (← vs.getArr?).toList.mapM Val.fromJson))
    | _ => throw "bad array row"
  return { cols := cols, rows := rows }

def optDate (j : Json) (k : String) : Except String (Option Date) :=
  match optField j k with
  | some v => do pure (some (← Date.fromJson v))
  | none => pure none

def implCells (j : Json) (k : String) : Except String (Option (List Cell)) :=
  match optField j k with
  | some v => match v.getObjVal? "ok" with
    | .ok cs => do pure (some (← cellsFromJson cs))
    | .error _ => pure none
  | none => pure none

def parsedRows {α} (rows : List (PeriodEntry × α)) : Option (List (Date × α)) :=
  rows.mapM fun r => match r.1.parse with | .ok d => some (d, r.2) | .error _ => none

def edgeRowsToJson (rs : List EdgeRow) : Json :=
  Json.arr (rs.map fun r => Json.arr #[r.period.toJson, r.evaluation.toJson, dictToJson Val.toJson r.entries]).toArray

def edgeRowsFromJson (j : Json) : Except String (List EdgeRow) := do
  (← j.getArr?).toList.mapM fun r => do
    match (← r.getArr?).toList with
    | [p, e, es] => pure { period := ← Date.fromJson p, evaluation := ← Date.fromJson e, entries := ← valDictFromJson es }
    | _ => throw "bad edge row"

def getBoolD (j : Json) (k : String) (d : Bool) : Bool :=
  match optField j k with
  | some v => (v.getBool?.toOption).getD d
  | none => d

def handle (j : Json) : Except String Json := do
  let op ← (← j.getObjVal? "op").getStr?
  let t ← cellsFromJson (← j.getObjVal? "cells")
  match op with
  | "wide" | "long" =>
    let long := op == "long"
    let fieldCols ← strList j "field_cols"
    let detailCols ← strList j "detail_cols"
    let lossCols ← strList j "loss_detail_cols"
    -- "fc" / "dc" present (possibly null): the lists as the CALLER gave them, the reader infers the other
    let infer := (j.getObjVal? "fc").toOption.isSome || (j.getObjVal? "dc").toOption.isSome
    let fc ← optStrList j "fc"
    let dc ← optStrList j "dc"
    let read (tb : Table) : Except Err (List Cell) :=
      if long then fromLongRows tb lossCols
      else if infer then fromWideRowsInfer tb fc dc lossCols
      else fromWideRows tb fieldCols detailCols lossCols
    let mt := if long then toLongRows t else toWideRows t
    let back := mt.bind read
    let implBack ← match optField j "impl_table" with
      | some v => do pure (exc cellsToJson (read (← tableFromJson v)))
      | none => pure Json.null
    let spec ← match optField j "impl_loaded" with
      | some v => do
        let out ← cellsFromJson v
        pure (Json.mkObj [
          ("roundtrip", if long && lossCols.isEmpty then Spec.C14.longSpec t out else Spec.C14.wideSpec t out),
          ("slices", Spec.C14.slicesSpec (long && lossCols.isEmpty) t out)])
      | none => pure Json.null
    let rowSpec ← match optField j "impl_nrows" with
      | some v => do pure (Json.bool (Spec.C14.rowCountSpec long t (← v.getNat?)))
      | none => pure Json.null
    return Json.mkObj [("table", exc tableToJson mt), ("back", exc cellsToJson back),
                       ("impl_table_back", implBack), ("spec", spec), ("rowspec", rowSpec)]
  | "array" =>
    let field ← (← j.getObjVal? "field").getStr?
    let md ← Metadata.fromJson (← j.getObjVal? "md")
    let res ← jInt? (← j.getObjVal? "res")
    let fr := toArrayFrame t field
    let backE := fr.bind fun rows => fromArrayFrame rows field md (some res)
    let backI := fr.bind fun rows => fromArrayFrame rows field md none
    let spec (k : String) : Except String Json := match optField j k with
      | some v => do
        match v.getObjVal? "ok" with
        | .ok cs => pure (Json.bool (Spec.C14.backSpec t (← cellsFromJson cs)))
        | .error _ => pure (Json.bool false)
      | none => pure Json.null
    return Json.mkObj [("frame", exc arrayRowsToJson fr), ("back_explicit", exc cellsToJson backE),
                       ("back_inferred", exc cellsToJson backI),
                       ("spec_explicit", ← spec "impl_explicit"), ("spec_inferred", ← spec "impl_inferred")]
  | "matrix" =>
    let m := toMatrix t
    let back := m.bind fromMatrix
    let spec ← match optField j "impl_back" with
      | some v => do pure (Json.bool (Spec.C14.backSpec t (← cellsFromJson v)))
      | none => pure Json.null
    return Json.mkObj [("matrix", exc matrixToJson m), ("back", exc cellsToJson back), ("spec", spec)]
  | "rich" =>
    let evalRes ← optInt j "eval_resolution"
    let fields ← optStrList j "fields"
    let m := toRich t evalRes fields
    let back := m.bind fromRich
    -- Spec clauses on the IMPLEMENTATION's matrix and on its round trip
    let (implMatrixBack, placed, nothingElse) ← match optField j "impl_matrix" with
      | some v => do
        let im ← richFromJson v
        pure (exc cellsToJson (fromRich im), Json.bool (Spec.C14.richPlacedSpec im t),
              Json.bool (Spec.C14.richNothingElseSpec im t))
      | none => pure (Json.null, Json.null, Json.null)
    let (spec, mixed) ← match optField j "impl_back", optField j "impl_matrix" with
      | some v, some mv => do
        let out ← cellsFromJson v
        let ix ← indexFromJson mv
        pure (Json.bool (Spec.C14.richSpec ix.fields t out), Json.bool (Spec.C14.richMixedSpec ix t out))
      | _, _ => pure (Json.null, Json.null)
    return Json.mkObj [("matrix", exc richToJson m), ("back", exc cellsToJson back),
                       ("impl_matrix_back", implMatrixBack), ("spec", spec), ("mixed", mixed),
                       ("placed", placed), ("nothing_else", nothingElse)]
  | "matrix_opt" =>
    let evalRes ← optInt j "eval_resolution"
    let fields ← optStrList j "fields"
    let m := toMatrixOpt t evalRes fields
    let back := m.bind fromMatrix
    return Json.mkObj [("matrix", exc matrixToJson m), ("back", exc cellsToJson back)]
  | "statics" =>
    let rows ← staticsRowsFromJson (← j.getObjVal? "rows")
    let ev ← optDate j "evaluation"
    let res ← optInt j "res"
    let md ← Metadata.fromJson (← j.getObjVal? "md")
    let back := fromStatics rows ev res md
    -- Spec on the implementation's output; `spec_res` = the month distance of the periods (from the harness)
    let spec ← match ← implCells j "impl", parsedRows (rows.map fun r => (r.period, r.entries)), ← optInt j "spec_res" with
      | some out, some prs, some r =>
        let e := match ev with
          | some x => x
          | none => Spec.C14.periodEndOf ((maxDate (prs.map (·.1))).getD Date.min) r
        pure (Json.bool (Spec.C14.staticsSpec prs r e md out))
      | _, _, _ => pure Json.null
    return Json.mkObj [("back", exc cellsToJson back), ("spec", spec)]
  | "right_edge" =>
    let fr := toRightEdgeFrame t
    let spec ← match optField j "impl_rows" with
      | some v => do pure (Json.bool (Spec.C14.rightEdgeSpec t (← edgeRowsFromJson v)))
      | none => pure Json.null
    -- the frame without its evaluation column, read back as a statics frame
    let ev ← optDate j "evaluation"
    let res ← optInt j "res"
    let md ← Metadata.fromJson (← j.getObjVal? "md")
    let back := fr.bind fun rows =>
      fromStatics (rows.map fun r => { period := .date r.period, entries := r.entries }) ev res md
    let backSpec ← match ← implCells j "impl_back" with
      | some out => pure (Json.bool (Spec.C14.edgeBackSpec t out))
      | none => pure Json.null
    return Json.mkObj [("frame", exc edgeRowsToJson fr), ("spec", spec), ("back", exc cellsToJson back),
                       ("back_spec", backSpec)]
  | "array_full" =>
    let fr ← arrayFrameFromJson (← j.getObjVal? "frame")
    let field ← (← j.getObjVal? "field").getStr?
    let md ← Metadata.fromJson (← j.getObjVal? "md")
    let res ← optInt j "res"
    let evalRes ← optInt j "eval_res"
    let fromEnd := getBoolD j "from_end" true
    let back := fromArrayFrameFull fr field res evalRes fromEnd md
    -- Spec: needs the period resolution in force (`spec_res`, the month distance of the periods, from the harness)
    let spec ← match ← implCells j "impl", parsedRows fr.rows, ← optInt j "spec_res" with
      | some out, some prs, some r =>
        let er := effectiveEvalResolution fr.cols r evalRes
        pure (Json.bool (Spec.C14.arrayFullSpec field md r (fromEnd || er.isSome) (columnLags fr.cols er) prs out))
      | _, _, _ => pure Json.null
    return Json.mkObj [("back", exc cellsToJson back), ("spec", spec)]
  | "builder" =>
    let frames ← (← (← j.getObjVal? "frames").getArr?).toList.mapM arrayFrameFromJson
    let fields ← strList j "fields"
    let md ← Metadata.fromJson (← j.getObjVal? "md")
    let res ← optInt j "res"
    let evalRes ← optInt j "eval_res"
    let fromEnd := getBoolD j "from_end" true
    let back := arrayTriangleBuilder frames fields res evalRes fromEnd md
    let spec ← match ← implCells j "impl", frames.mapM (fun f => parsedRows f.rows), ← optInt j "spec_res" with
      | some out, some prss, some r =>
        let fs := (fields.zip (frames.zip prss)).map fun p =>
          let er := effectiveEvalResolution p.2.1.cols r evalRes
          (p.1, columnLags p.2.1.cols er, p.2.2)
        let anyEr := frames.all fun f => (effectiveEvalResolution f.cols r evalRes).isSome
        pure (Json.bool (Spec.C14.builderSpec fs md r (fromEnd || anyEr) out))
      | _, _, _ => pure Json.null
    return Json.mkObj [("back", exc cellsToJson back), ("spec", spec)]
  | "parse_date" =>
    let texts ← strList j "texts"
    return Json.mkObj [("dates", Json.arr (texts.map fun s => exc Date.toJson (parseDate s)).toArray)]
  | "frame_roundtrip" =>
    -- the in-memory data frames: model of the round trip incl. the readers' column-type check
    let fieldCols ← strList j "field_cols"
    let detailCols ← strList j "detail_cols"
    let lossCols ← strList j "loss_detail_cols"
    let w := wideFrameRoundTrip t fieldCols detailCols lossCols
    let l := longFrameRoundTrip t lossCols
    let specW ← match ← implCells j "impl_wide" with
      | some out => pure (Json.bool (Spec.C14.wideSpec t out && Spec.C14.slicesSpec false t out))
      | none => pure Json.null
    let dt (ds : DateDtypes) : Json := Json.mkObj (ds.map fun p => (p.1, Json.str (match p.2 with
      | .datetime64 => "datetime64" | .period => "period" | .dates => "dates")))
    return Json.mkObj [("wide", exc cellsToJson w), ("long", exc cellsToJson l), ("spec_wide", specW),
                       ("wide_dtypes", dt (wideFrameDtypes t)), ("long_dtypes", dt (longFrameDtypes t))]
  | "back_spec" =>
    -- Spec only (no model): `impl_back` holds the same cells as `cells`, numbers as floats
    let spec ← match ← implCells j "impl_back" with
      | some out => pure (Json.bool (Spec.C14.backSpec t out))
      | none => pure Json.null
    return Json.mkObj [("spec", spec)]
  | o => throw s!"unknown op {o}"

def main : IO Unit := serve handle
