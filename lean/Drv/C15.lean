-- driver stub for C15: replaced by the real line-protocol driver
def main : IO Unit := pure ()
