import Bermuda.Model.Json
import Bermuda.Model.Extend
import Bermuda.Spec.C15
open Lean Bermuda Bermuda.Extend

def optField (j : Json) (k : String) : Option Json :=
  match j.getObjVal? k with
  | .ok v => if v.isNull then none else some v
  | .error _ => none

def optInt? (j : Json) (k : String) : Except String (Option Int) :=
  match optField j k with
  | some v => (jInt? v).map some
  | none => .ok none

def implCells? (j : Json) : Except String (Option (List Cell)) :=
  match optField j "impl" with
  | some v => (cellsFromJson v).map some
  | none => .ok none

def clausesToJson (l : List (String × Bool)) : Json :=
  Json.mkObj (l.map fun (k, b) => (k, Json.bool b))

def answer (model : Except Err (List Cell)) (spec : Option (List (String × Bool))) : Json :=
  Json.mkObj [("model", exceptToJson cellsToJson model),
              ("spec", match spec with | some l => clausesToJson l | none => Json.null)]

def handle (j : Json) : Except String Json := do
  let op ← (← j.getObjVal? "op").getStr?
  let cells ← cellsFromJson (← j.getObjVal? "cells")
  let t ← match Triangle.ofCells cells with
    | .ok t => pure t
    | .error _ => throw "input cells are not a triangle"
  let impl ← implCells? j
  match op with
  | "rightTri" =>
    let lags ← match optField j "lags" with
      | some v => (do let a ← v.getArr?; a.toList.mapM ratFromJson).map some
      | none => pure none
    let unit ← (← j.getObjVal? "unit").getStr?
    let spec := match impl, LagUnit.parse? unit with
      | some out, some u => some (Spec.C15.rightTriSpec t lags u out)
      | _, _ => none
    return answer (makeRightTriangle t lags unit) spec
  | "rightDiag" =>
    let dates ← (← (← j.getObjVal? "dates").getArr?).toList.mapM Date.fromJson
    let hist ← (← j.getObjVal? "hist").getBool?
    let spec := impl.map fun out =>
      if hist then Spec.C15.rightDiagHistSpec t dates out
      else Spec.C15.rightDiagSpec t dates out
    return answer (makeRightDiagonal t dates hist) spec
  | "fill" =>
    let res ← optInt? j "res"
    let noneFlag ← (← j.getObjVal? "none").getBool?
    return answer (fillForwardGaps t res noneFlag) (impl.map (Spec.C15.fillSpec t res noneFlag))
  | "backfill" =>
    let res ← optInt? j "res"
    let statics ← (← (← j.getObjVal? "statics").getArr?).toList.mapM (·.getStr?)
    let minLag ← jInt? (← j.getObjVal? "minLag")
    return answer (backfill t statics res minLag) (impl.map (Spec.C15.backfillSpec t statics res minLag))
  | o => throw s!"unknown op {o}"

def main : IO Unit := serve handle
