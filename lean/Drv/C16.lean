-- driver stub for C16: replaced by the real line-protocol driver
def main : IO Unit := pure ()
