import Bermuda.Model.Json
import Bermuda.Model.Blend
import Bermuda.Spec.C16
open Lean Bermuda Bermuda.Blend

def ratsFromJson (j : Json) : Except String (List Rat) := do
  (← j.getArr?).toList.mapM ratFromJson

def warrFromJson (j : Json) : Except String WArr := do
  let a ← j.getArr?
  if a.size != 2 then throw "warr: want pair"
  match (← a[0]!.getStr?) with
  | "s" => return .scalar (← ratFromJson a[1]!)
  | "v" => return .vec (← ratsFromJson a[1]!)
  | "m" => return .mat (← (← a[1]!.getArr?).toList.mapM ratsFromJson)
  | t => throw s!"warr: bad tag {t}"

def weightsFromJson (j : Json) : Except String Weights := do
  if j.isNull then return .none
  let a ← j.getArr?
  match (← a[0]!.getStr?) with
  | "l" => return .list (← ratsFromJson a[1]!)
  | "d" => return .dict (← (← a[1]!.getArr?).toList.mapM warrFromJson)
  | "o" => return .other
  | t => throw s!"weights: bad tag {t}"

/-- a recorded call of `np.random.choice(range(M), S, p=p)` and what it returned -/
structure Draw where
  S : Nat
  p : List Rat
  idx : List Nat

def drawFromJson (j : Json) : Except String Draw := do
  let a ← j.getArr?
  if a.size != 3 then throw "draw: want [S,p,idx]"
  return { S := ← a[0]!.getNat?, p := ← ratsFromJson a[1]!,
           idx := ← (← a[2]!.getArr?).toList.mapM (·.getNat?) }

def absD (q : Rat) : Rat := if q < 0 then -q else q

/-- the draw recorded for sample size `S` and probabilities `w` (2⁻⁴⁰: `1/3` is not a double) -/
def findDraw (draws : List Draw) (S : Nat) (w : List Rat) : List Nat :=
  match draws.find? (fun d => d.S == S && d.p.length == w.length &&
      (d.p.zip w).all fun (a, b) => absD (a - b) ≤ 1 / 1099511627776) with
  | some d => d.idx
  | none => []

def optBool (b : Option Bool) : Json := match b with | some b => Json.bool b | none => Json.null

def handle (j : Json) : Except String Json := do
  let op ← (← j.getObjVal? "op").getStr?
  match op with
  | "blend" =>
    let ts ← (← (← j.getObjVal? "ts").getArr?).toList.mapM cellsFromJson
    let w ← weightsFromJson (← j.getObjVal? "w")
    let method ← (← j.getObjVal? "method").getStr?
    let draws ← (← (← j.getObjVal? "draws").getArr?).toList.mapM drawFromJson
    let tol ← ratFromJson (← j.getObjVal? "tol")
    let M := ts.length
    let idx : Nat → String → List Nat :=
      match blendPrep ts w method with
      | .error _ => fun _ _ => []
      | .ok (_, t0, wl) => fun i f =>
        match (t0.getD i default).values.get? f with
        | some v =>
          (match sampleLen v with
           | .ok S => findDraw draws S ((wl.getD i none).getD (List.replicate M (1 / (M : Rat))))
           | .error _ => [])
        | none => []
    let model := blend ts w method idx
    let errs := blendErrs ts w method idx
    let spec ← match j.getObjVal? "impl" with
      | .ok v =>
        if v.isNull then pure Json.null else do
          let out ← cellsFromJson v
          let t0 := ts.headD []
          let linear := (parseMethod method) == some .linear
          let flag (k : String) : Bool := match j.getObjVal? k with | .ok (Json.bool b) => b | _ => false
          let deg : Option Nat := match j.getObjVal? "degenerate" with
            | .ok v => (v.getNat?).toOption
            | .error _ => none
          pure <| Json.mkObj [
            ("structure", Json.bool (Spec.C16.structureOk t0 out)),
            ("linear", optBool (if linear then some (Spec.C16.linearValueOk ts w out tol) else none)),
            ("convex", optBool (if linear && flag "convex" then some (Spec.C16.convexOk ts out tol) else none)),
            ("agree", optBool (if linear && flag "agree" then some (Spec.C16.agreeOk ts out tol) else none)),
            ("membership", optBool (if !linear then some (Spec.C16.mixtureMembership ts out) else none)),
            ("degenerate", optBool (match deg with
               | some d => if !linear then some (Spec.C16.mixtureIsInput ts d out) else none
               | none => none))]
      | .error _ => pure Json.null
    return Json.mkObj [("model", exceptToJson cellsToJson model),
                       ("errs", Json.arr (errs.map (fun e => Json.str e.name)).toArray),
                       ("spec", spec)]
  | o => throw s!"unknown op {o}"

def main : IO Unit := serve handle
