-- driver stub for C17: replaced by the real line-protocol driver
def main : IO Unit := pure ()
