import Bermuda.Model.Json
import Bermuda.Model.Resample
import Bermuda.Model.ResampleExt
import Bermuda.Model.ResampleME
import Bermuda.Model.ResampleATA
import Bermuda.Spec.C17
open Lean Bermuda Bermuda.Resample

def ratsFromJson (j : Json) : Except String (List Rat) := do
  (← j.getArr?).toList.mapM ratFromJson

def ratsToJson (l : List Rat) : Json := Json.arr (l.map ratToJson).toArray

def pairsFromJson {α} (f : Json → Except String α) (j : Json) : Except String (List (String × α)) := do
  (← j.getArr?).toList.mapM fun e => do
    let a ← e.getArr?
    if a.size != 2 then throw "want pairs"
    return (← a[0]!.getStr?, ← f a[1]!)

def factorsFromJson (j : Json) : Except String Factors := do
  (← j.getArr?).toList.mapM fun e => do
    let a ← e.getArr?
    if a.size != 2 then throw "factors: want [lag, table]"
    return (← ratFromJson a[0]!, ← pairsFromJson ratsFromJson a[1]!)

def repParamFromJson (j : Json) : Except String RepParam := do
  let F ← match j.getObjVal? "F" with
    | .ok v => factorsFromJson v
    | .error _ => pure []
  let qs ← match j.getObjVal? "qs" with
    | .ok v => pairsFromJson ratsFromJson v
    | .error _ => pure []
  return { F := F, qs := fun f => (assoc? qs f).getD [] }

def idxTableFromJson (j : Json) : Except String IdxTable := do
  (← j.getArr?).toList.mapM fun e => do
    let a ← e.getArr?
    if a.size != 2 then throw "I: want [lag, table]"
    return (← ratFromJson a[0]!, ← pairsFromJson (fun v => do (← v.getArr?).toList.mapM (·.getNat?)) a[1]!)

/-- one replicate of one slice: `{"I": index draws}` (age-to-age), `{"qs": sorted quantiles}` (maximum entropy);
the older `{"F": factor table}` is still understood -/
def drawsFromJson (j : Json) : Except String (Option Factors × Draws) := do
  let F ← match j.getObjVal? "F" with
    | .ok v => pure (some (← factorsFromJson v))
    | .error _ => pure none
  let I ← match j.getObjVal? "I" with
    | .ok v => idxTableFromJson v
    | .error _ => pure []
  let qs ← match j.getObjVal? "qs" with
    | .ok v => pairsFromJson ratsFromJson v
    | .error _ => pure []
  return (F, { I := I, qs := fun f => (assoc? qs f).getD [] })

def limitsFromJson (j : Json) : Except String (Option (Rat × Rat)) := do
  match j.getObjVal? "L" with
  | .ok v =>
    if v.isNull then return none
    else
      let a ← v.getArr?
      if a.size != 2 then throw "L: want [lo, hi]"
      return some (← ratFromJson a[0]!, ← ratFromJson a[1]!)
  | .error _ => return none

def optFields (j : Json) : Except String (Option (List String)) := do
  match j.getObjVal? "field" with
  | .ok v => if v.isNull then return none else return some (← (← v.getArr?).toList.mapM (·.getStr?))
  | .error _ => return none

def bools (l : List (String × Bool)) : Json := Json.mkObj (l.map fun (k, b) => (k, Json.bool b))

def handle (j : Json) : Except String Json := do
  let op ← (← j.getObjVal? "op").getStr?
  match op with
  | "reimpose" =>
    let xs ← ratsFromJson (← j.getObjVal? "xs")
    let qs ← ratsFromJson (← j.getObjVal? "qs")
    let model := reimposeRank xs qs
    let spec ← match j.getObjVal? "impl" with
      | .ok v => if v.isNull then pure Json.null else do
          let r ← ratsFromJson v
          -- `order` reads lists inside a double loop: small series only (for longer ones it follows from `fixed`
          -- by Properties.C17.spec_rank)
          pure <| bools [("order", xs.length > 300 || Spec.C17.rankOrderOk xs r), ("fixed", Spec.C17.rankFixed xs r),
                         ("perm", Spec.C17.sameMultiset qs r)]
      | .error _ => pure Json.null
    return Json.mkObj [("model", ratsToJson model), ("spec", spec)]
  | "meRaw" =>
    -- {"op":"meRaw","xs":[val..],"qs":["n/d"..]} -> {"model": {"ok":[val..]} | {"err": class}}
    let xs ← (← (← j.getObjVal? "xs").getArr?).toList.mapM Val.fromJson
    let qs ← ratsFromJson (← j.getObjVal? "qs")
    return Json.mkObj [("model", exceptToJson (fun l => Json.arr (l.map Val.toJson).toArray) (meEnsembleRaw xs qs))]
  | "me" =>
    -- {"op":"me","xs":[val..],"U":[rat..],"L":null|[lo,hi],"tol":rat,"impl":[rat..]|null}
    let xs ← (← (← j.getObjVal? "xs").getArr?).toList.mapM Val.fromJson
    let U ← ratsFromJson (← j.getObjVal? "U")
    let L ← limitsFromJson j
    let tol ← match j.getObjVal? "tol" with
      | .ok v => ratFromJson v
      | .error _ => pure 0
    let model := maxEntropy xs U L
    let nums? := match mapMExcept numOf xs with | .ok n => some n | .error _ => none
    let (info, spec) ← match nums? with
      | none => pure (Json.null, Json.null)
      | some nums =>
        let lim := meLimits nums L
        let info := Json.mkObj [("lim", ratsToJson [lim.1, lim.2]),
          ("bind", Json.bool (limitsBind (sortQ nums) lim.1 lim.2)),
          ("envelope", ratsToJson [meLower (sortQ nums) lim.1 lim.2, meUpper (sortQ nums) lim.1 lim.2])]
        let spec ← match j.getObjVal? "impl" with
          | .ok v => if v.isNull then pure Json.null else do
              let r ← ratsFromJson v
              -- the three bound clauses presuppose draws in [0, 1) (as `rng.uniform` delivers; the code's own
              -- guard `0 > u > 1` is dead, a draw below 0 is extrapolated — `value`/`perm` still apply)
              let unit := U.all fun u => decide (0 ≤ u) && decide (u < 1)
              pure <| bools [("intervals", !unit || Spec.C17.meIntervalsOk nums L tol r),
                             ("envelope", !unit || Spec.C17.meEnvelopeOk nums L tol r),
                             ("limits", !unit || Spec.C17.meLimitsOk nums L tol r),
                             -- independent restatement (centre / width, floor): no call of the model's quantiles
                             ("valueCW", Spec.C17.meValueCWOk nums U L tol r),
                             ("intervalsCW", !unit || Spec.C17.meIntervalsCWOk nums L tol r),
                             ("fixed", nums.length > 300 || Spec.C17.rankFixed nums r),
                             ("perm", Spec.C17.mePermOk nums U L tol r),
                             ("value", Spec.C17.meValueOk nums U L tol r),
                             -- quadratic-with-list-access clause: small series only (implied by `value` + theorem)
                             ("order", nums.length > 300 || Spec.C17.rankOrderOk nums r)]
          | .error _ => pure Json.null
        pure (info, spec)
    return Json.mkObj [("model", exceptToJson (fun l => Json.arr (l.map Val.toJson).toArray) model),
                       ("info", info), ("spec", spec)]
  | "weights" =>
    -- {"op":"weights","s":[cells of ONE slice],"fields":[..],"tol":rat,"impl":[[lag,[[field,[p..]]..]]..]}
    let sl ← cellsFromJson (← j.getObjVal? "s")
    let fields ← (← (← j.getObjVal? "fields").getArr?).toList.mapM (·.getStr?)
    let tol ← ratFromJson (← j.getObjVal? "tol")
    let model := ataWeights sl fields
    let toJ (F : Factors) : Json := Json.arr (F.map fun lt => Json.arr #[ratToJson lt.1,
      Json.arr (lt.2.map fun fa => Json.arr #[Json.str fa.1, ratsToJson fa.2]).toArray]).toArray
    let spec ← match j.getObjVal? "impl" with
      | .ok v => if v.isNull then pure Json.null else do
          let impl ← factorsFromJson v
          pure <| bools [("weights", Spec.C17.weightsOk sl fields tol impl),
                         ("probability", Spec.C17.probVectorsOk tol impl)]
      | .error _ => pure Json.null
    return Json.mkObj [("model", exceptToJson toJ model), ("spec", spec)]
  | "moments" =>
    -- {"op":"moments","d":[rat..],"impl":{"mean":rat,"var":rat,"n":nat,"tolM":rat,"tolV":rat}|null}
    let d ← ratsFromJson (← j.getObjVal? "d")
    let (mu, s2, n) := sampleMoments d
    let g := gammaParams mu s2
    let spec ← match j.getObjVal? "impl" with
      | .ok v => if v.isNull then pure Json.null else do
          let m ← ratFromJson (← v.getObjVal? "mean")
          let vr ← ratFromJson (← v.getObjVal? "var")
          let k ← (← v.getObjVal? "n").getNat?
          let tm ← ratFromJson (← v.getObjVal? "tolM")
          let tv ← ratFromJson (← v.getObjVal? "tolV")
          pure <| bools [("moments", Spec.C17.momentsOk d m vr k tm tv)]
      | .error _ => pure Json.null
    return Json.mkObj [("model", Json.mkObj [("mean", ratToJson mu), ("var", ratToJson s2), ("n", Json.num n),
                                              ("gamma", ratsToJson [g.1, g.2])]), ("spec", spec)]
  | "bootstrap" =>
    let t ← cellsFromJson (← j.getObjVal? "t")
    let n ← jInt? (← j.getObjVal? "n")
    let field ← optFields j
    let P ← (← (← j.getObjVal? "P").getArr?).toList.mapM fun s => do
      (← s.getArr?).toList.mapM drawsFromJson
    let usesF := P.any fun s => s.any fun d => d.1.isSome
    let Df : Nat → Nat → Draws := fun k i => ((P.getD k []).getD i (none, {})).2
    let Pf : Nat → Nat → RepParam := fun k i =>
      let d := (P.getD k []).getD i (none, {})
      { F := d.1.getD [], qs := d.2.qs }
    let model := if usesF then bootstrap t n field Pf else bootstrapD t n field Df
    let identity := match j.getObjVal? "identity" with
      | .ok (.bool b) => b
      | _ => false
    let slices := (Triangle.slices t).map (·.2)
    let spec ← match j.getObjVal? "impl" with
      | .ok v => if v.isNull then pure Json.null else do
          let reps ← (← v.getArr?).toList.mapM cellsFromJson
          let perSlice (g : List Cell → List Cell → Nat → List String → IdxTable → Bool) : Bool :=
            reps.zipIdx.all fun (rep, i) => slices.zipIdx.all fun (s, k) =>
              !useAtas s || g s rep i (field.getD (fieldsOf s)) (Df k i).I
          pure <| bools ([
            ("structure", Spec.C17.bootstrapStructureOk t n.toNat reps),
            ("first", reps.zipIdx.all fun (rep, i) => Spec.C17.firstCellsUnchanged t rep i),
            ("membership", reps.zipIdx.all fun (rep, i) => Spec.C17.ataMembershipOk t rep i field)] ++
            (if usesF then [] else [("chain", perSlice Spec.C17.chainOkSlice)]) ++
            (if identity then [("reproduces", perSlice fun s rep i fs _ => Spec.C17.reproducesSlice s rep i fs)]
             else []))
      | .error _ => pure Json.null
    return Json.mkObj [("model", exceptToJson (fun l => Json.arr (l.map cellsToJson).toArray) model),
                       ("spec", spec)]
  | "thin" =>
    let t ← cellsFromJson (← j.getObjVal? "t")
    let k ← (← j.getObjVal? "k").getNat?
    let idx ← (← (← j.getObjVal? "idx").getArr?).toList.mapM (·.getNat?)
    let model := thin t k idx
    let mj := exceptToJson (fun r => match r with
      | ThinResult.same => Json.str "same"
      | ThinResult.fresh c => cellsToJson c) model
    let n := match numSamples t with | .ok n => n | .error _ => 0
    let spec ← match j.getObjVal? "impl" with
      | .ok v =>
        if v.isNull then pure Json.null
        else match v with
          | .str _ => pure Json.null
          | _ => do
            let out ← cellsFromJson v
            pure <| bools [("thin", Spec.C17.thinOk t out k n)]
      | .error _ => pure Json.null
    return Json.mkObj [("model", mj), ("spec", spec)]
  | "moment" =>
    let t ← cellsFromJson (← j.getObjVal? "t")
    let fields ← (← (← j.getObjVal? "fields").getArr?).toList.mapM (·.getStr?)
    let distOk ← (← j.getObjVal? "distOk").getBool?
    let draws ← (← (← j.getObjVal? "draws").getArr?).toList.mapM fun e => do
      let a ← e.getArr?
      if a.size != 3 then throw "draw: want [i, field, values]"
      return (← a[0]!.getNat?, ← a[1]!.getStr?, ← ratsFromJson a[2]!)
    let df : Nat → String → List Rat := fun i f =>
      match draws.find? (fun d => d.1 == i && d.2.1 == f) with
      | some d => d.2.2
      | none => []
    let model := momentMatch t fields distOk df
    let spec ← match j.getObjVal? "impl" with
      | .ok v => if v.isNull then pure Json.null else do
          let out ← cellsFromJson v
          pure <| bools [("moment", Spec.C17.momentOk t out fields)]
      | .error _ => pure Json.null
    return Json.mkObj [("model", exceptToJson cellsToJson model), ("spec", spec)]
  | o => throw s!"unknown op {o}"

def main : IO Unit := serve handle
