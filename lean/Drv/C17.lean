import Bermuda.Model.Json
import Bermuda.Model.Resample
import Bermuda.Model.ResampleExt
import Bermuda.Spec.C17
open Lean Bermuda Bermuda.Resample

def ratsFromJson (j : Json) : Except String (List Rat) := do
  (← j.getArr?).toList.mapM ratFromJson

def ratsToJson (l : List Rat) : Json := Json.arr (l.map ratToJson).toArray

def pairsFromJson {α} (f : Json → Except String α) (j : Json) : Except String (List (String × α)) := do
  (← j.getArr?).toList.mapM fun e => do
    let a ← e.getArr?
    if a.size != 2 then throw "want pairs"
    return (← a[0]!.getStr?, ← f a[1]!)

def factorsFromJson (j : Json) : Except String Factors := do
  (← j.getArr?).toList.mapM fun e => do
    let a ← e.getArr?
    if a.size != 2 then throw "factors: want [lag, table]"
    return (← ratFromJson a[0]!, ← pairsFromJson ratsFromJson a[1]!)

def repParamFromJson (j : Json) : Except String RepParam := do
  let F ← match j.getObjVal? "F" with
    | .ok v => factorsFromJson v
    | .error _ => pure []
  let qs ← match j.getObjVal? "qs" with
    | .ok v => pairsFromJson ratsFromJson v
    | .error _ => pure []
  return { F := F, qs := fun f => (assoc? qs f).getD [] }

def optFields (j : Json) : Except String (Option (List String)) := do
  match j.getObjVal? "field" with
  | .ok v => if v.isNull then return none else return some (← (← v.getArr?).toList.mapM (·.getStr?))
  | .error _ => return none

def bools (l : List (String × Bool)) : Json := Json.mkObj (l.map fun (k, b) => (k, Json.bool b))

def handle (j : Json) : Except String Json := do
  let op ← (← j.getObjVal? "op").getStr?
  match op with
  | "reimpose" =>
    let xs ← ratsFromJson (← j.getObjVal? "xs")
    let qs ← ratsFromJson (← j.getObjVal? "qs")
    let model := reimposeRank xs qs
    let spec ← match j.getObjVal? "impl" with
      | .ok v => if v.isNull then pure Json.null else do
          let r ← ratsFromJson v
          pure <| bools [("order", Spec.C17.rankOrderOk xs r), ("fixed", Spec.C17.rankFixed xs r),
                         ("perm", Spec.C17.sameMultiset qs r)]
      | .error _ => pure Json.null
    return Json.mkObj [("model", ratsToJson model), ("spec", spec)]
  | "meRaw" =>
    -- {"op":"meRaw","xs":[val..],"qs":["n/d"..]} -> {"model": {"ok":[val..]} | {"err": class}}
    let xs ← (← (← j.getObjVal? "xs").getArr?).toList.mapM Val.fromJson
    let qs ← ratsFromJson (← j.getObjVal? "qs")
    return Json.mkObj [("model", exceptToJson (fun l => Json.arr (l.map Val.toJson).toArray) (meEnsembleRaw xs qs))]
  | "bootstrap" =>
    let t ← cellsFromJson (← j.getObjVal? "t")
    let n ← jInt? (← j.getObjVal? "n")
    let field ← optFields j
    let P ← (← (← j.getObjVal? "P").getArr?).toList.mapM fun s => do
      (← s.getArr?).toList.mapM repParamFromJson
    let Pf : Nat → Nat → RepParam := fun k i => (P.getD k []).getD i {}
    let model := bootstrap t n field Pf
    let spec ← match j.getObjVal? "impl" with
      | .ok v => if v.isNull then pure Json.null else do
          let reps ← (← v.getArr?).toList.mapM cellsFromJson
          pure <| bools [
            ("structure", Spec.C17.bootstrapStructureOk t n.toNat reps),
            ("first", reps.zipIdx.all fun (rep, i) => Spec.C17.firstCellsUnchanged t rep i),
            ("membership", reps.zipIdx.all fun (rep, i) => Spec.C17.ataMembershipOk t rep i field)]
      | .error _ => pure Json.null
    return Json.mkObj [("model", exceptToJson (fun l => Json.arr (l.map cellsToJson).toArray) model),
                       ("spec", spec)]
  | "thin" =>
    let t ← cellsFromJson (← j.getObjVal? "t")
    let k ← (← j.getObjVal? "k").getNat?
    let idx ← (← (← j.getObjVal? "idx").getArr?).toList.mapM (·.getNat?)
    let model := thin t k idx
    let mj := exceptToJson (fun r => match r with
      | ThinResult.same => Json.str "same"
      | ThinResult.fresh c => cellsToJson c) model
    let n := match numSamples t with | .ok n => n | .error _ => 0
    let spec ← match j.getObjVal? "impl" with
      | .ok v =>
        if v.isNull then pure Json.null
        else match v with
          | .str _ => pure Json.null
          | _ => do
            let out ← cellsFromJson v
            pure <| bools [("thin", Spec.C17.thinOk t out k n)]
      | .error _ => pure Json.null
    return Json.mkObj [("model", mj), ("spec", spec)]
  | "moment" =>
    let t ← cellsFromJson (← j.getObjVal? "t")
    let fields ← (← (← j.getObjVal? "fields").getArr?).toList.mapM (·.getStr?)
    let distOk ← (← j.getObjVal? "distOk").getBool?
    let draws ← (← (← j.getObjVal? "draws").getArr?).toList.mapM fun e => do
      let a ← e.getArr?
      if a.size != 3 then throw "draw: want [i, field, values]"
      return (← a[0]!.getNat?, ← a[1]!.getStr?, ← ratsFromJson a[2]!)
    let df : Nat → String → List Rat := fun i f =>
      match draws.find? (fun d => d.1 == i && d.2.1 == f) with
      | some d => d.2.2
      | none => []
    let model := momentMatch t fields distOk df
    let spec ← match j.getObjVal? "impl" with
      | .ok v => if v.isNull then pure Json.null else do
          let out ← cellsFromJson v
          pure <| bools [("moment", Spec.C17.momentOk t out fields)]
      | .error _ => pure Json.null
    return Json.mkObj [("model", exceptToJson cellsToJson model), ("spec", spec)]
  | o => throw s!"unknown op {o}"

def main : IO Unit := serve handle
