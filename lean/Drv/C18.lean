-- driver stub for C18: replaced by the real line-protocol driver
def main : IO Unit := pure ()
