import Bermuda.Model.Json
import Bermuda.Model.Units
import Bermuda.Spec.C18
open Lean Bermuda Bermuda.Units

def numFromJson (j : Json) : Except String Num := do
  let a ← j.getArr?
  if a.size != 2 then throw "num: want pair"
  match (← a[0]!.getStr?) with
  | "i" => return .int (← jInt? a[1]!)
  | "f" => return .flt (← ratFromJson a[1]!)
  | t => throw s!"num: bad tag {t}"

def ratsFromJson (j : Json) : Except String (List Rat) := do
  (← j.getArr?).toList.mapM ratFromJson

def ratsToJson (l : List Rat) : Json := Json.arr (l.map ratToJson).toArray

def strsFromJson (j : Json) : Except String (List String) := do
  (← j.getArr?).toList.mapM (·.getStr?)

def optField {α} (j : Json) (k : String) (f : Json → Except String α) : Except String (Option α) :=
  match j.getObjVal? k with
  | .ok v => if v.isNull then .ok none else (f v).map some
  | .error _ => .ok none

def handle (j : Json) : Except String Json := do
  let op ← (← j.getObjVal? "op").getStr?
  match op with
  | "currency" =>
    let cells ← cellsFromJson (← j.getObjVal? "cells")
    let target ← (← j.getObjVal? "target").getStr?
    let rates ← (← (← j.getObjVal? "rates").getArr?).toList.mapM fun e => do
      let a ← e.getArr?
      if a.size != 2 then throw "rate: want pair"
      return (← a[0]!.getStr?, ← numFromJson a[1]!)
    let qrates := rates.map fun p => (p.1, p.2.toRat)
    let impl ← optField j "impl" cellsFromJson
    let spec := match impl with
      | some o => Json.mkObj [("currency", Spec.C18.currencySpec Spec.C18.moneyFields target qrates cells o)]
      | none => Json.null
    return Json.mkObj [("model", exceptToJson cellsToJson (convertCurrency cells target rates)),
                       ("mustRefuse", Spec.C18.currencyMustRefuse target qrates cells), ("spec", spec)]
  | "disagg" =>
    let cells ← cellsFromJson (← j.getObjVal? "cells")
    let res ← (← j.getObjVal? "res").getNat?
    let weights ← optField j "weights" fun w => do (← w.getArr?).toList.mapM numFromJson
    let fields ← optField j "fields" strsFromJson
    let tol ← ratFromJson (← j.getObjVal? "tol")
    let impl ← optField j "impl" cellsFromJson
    let agg ← optField j "agg" cellsFromJson
    let fs := fields.getD Generated.Units.defaultInterpolationFields
    let spec := match impl with
      | some o => Json.mkObj ([("sum", Json.bool (Spec.C18.disaggSpec res fs tol cells o))] ++
          (match agg with
           | some a => [("aggBack", Json.bool (Spec.C18.aggBackSpec res fs tol cells a))]
           | none => []))
      | none => Json.null
    return Json.mkObj [("model", exceptToJson cellsToJson (disaggregateExperience cells res weights fields)),
                       ("wf", Json.bool (Spec.C18.disaggWF res cells)), ("spec", spec)]
  | "policyYear" =>
    let cells ← cellsFromJson (← j.getObjVal? "cells")
    let len ← (← j.getObjVal? "policyLen").getNat?
    let origin ← Date.fromJson (← j.getObjVal? "origin")
    let cont ← (← j.getObjVal? "continuous").getBool?
    let tol ← ratFromJson (← j.getObjVal? "tol")
    let impl ← optField j "impl" cellsFromJson
    let spec := match impl with
      | some o => Json.mkObj [("conserves", Json.bool (Spec.C18.policyYearSpec tol cells o))]
      | none => Json.null
    return Json.mkObj [("model", exceptToJson cellsToJson (aqToPolicyYear cells len origin cont)),
                       ("covered", Json.bool (Spec.C18.policyCovered cells len origin cont)), ("spec", spec)]
  | "premium" =>
    let vol ← ratFromJson (← j.getObjVal? "vol")
    let wp ← ratsFromJson (← j.getObjVal? "wp")
    let wres ← (← j.getObjVal? "wres").getNat?
    let ep ← ratsFromJson (← j.getObjVal? "ep")
    let eres ← (← j.getObjVal? "eres").getNat?
    let ores ← (← j.getObjVal? "ores").getNat?
    let offset ← jInt? (← j.getObjVal? "offset")
    let cont ← (← j.getObjVal? "continuous").getBool?
    let tol ← ratFromJson (← j.getObjVal? "tol")
    let impl ← optField j "impl" fun v => do
      let a ← v.getArr?
      if a.size != 2 then throw "premium impl: want [written, earned]"
      return (← ratsFromJson a[0]!, ← ratsFromJson a[1]!)
    let spec := match impl with
      | some (w, e) => Json.mkObj [("premium", Json.bool (Spec.C18.premiumSpec tol vol w e))]
      | none => Json.null
    let model := programEarnedPremium vol wp wres ep eres ores offset cont
    return Json.mkObj [("model", exceptToJson (fun (p : List Rat × List Rat) => Json.arr #[ratsToJson p.1, ratsToJson p.2]) model),
                       ("spec", spec)]
  | o => throw s!"unknown op {o}"

def main : IO Unit := serve handle
