-- driver stub for C19: replaced by the real line-protocol driver
def main : IO Unit := pure ()
