import Bermuda.Model.CodecJson
open Lean Bermuda Bermuda.Codec

/-- Line-protocol driver of the codec model for C19. Everything is `Codec.handle` (shared with C05 / C06);
the answer to `prefixes` additionally says whether the case is an INSTANCE of the theorems
`C19.decode_prefix_safe` / `decode_prefix_safe_py` / `decode_prefix_safe_firstRepr`: `wf cells`, `coherent cells`, and the file whose prefixes
were read IS `encode cells` (resp. `encodePy cells`). -/
def handle19 (j : Json) : Except String Json := do
  let out ← Codec.handle j
  match (← (← j.getObjVal? "op").getStr?) with
  | "prefixes" =>
    let fb ← hexFromJson (← j.getObjVal? "hex")
    let cells ← rawCellsFromJson (← j.getObjVal? "cells")
    let w := wf cells
    let c := coherent cells
    let outs ← (← (← j.getObjVal? "outs").getArr?).mapM rawCellsFromJson
    let fr := firstRepr cells
    return out.mergeObj (Json.mkObj [
      ("wf", Json.bool w), ("coherent", Json.bool c),
      -- oracle of C19.decode_prefix_safe_firstRepr: leading cells of what the intact file decodes to
      ("specFirstRepr", Json.arr (outs.map (fun o => Json.bool (Spec.C19.prefixSafe fr o)))),
      ("fileIsEncode", Json.bool (w && fb == encode cells)),
      ("fileIsEncodePy", Json.bool (w && fb == encodePy cells))])
  | _ => return out

def main : IO Unit := serve handle19
