import Bermuda.Model.Json
import Bermuda.Model.Plot
import Bermuda.Generated.PlotMetrics
import Bermuda.Spec.C20
open Lean Bermuda Bermuda.Plot

/-!
Driver of C20. One request per line:
  {"cells": [...], "impl": [record…] | null, "tol": "n/d"}
Record   {"ps","pe","ev","lag":"n/d","fields":[…],"m":[[name,{"fc":bool,"s":[[stat,["e"|"r","n/d"]]…]}]…]}
Answer   {"model": [record…], "spec": {clause: bool…} | null, "specModel": bool}
-/

def SVal.toJson : SVal → Json
  | .exact q => Json.arr #["e", ratToJson q]
  | .sqrt q => Json.arr #["r", ratToJson q]

def SVal.fromJson (j : Json) : Except String SVal := do
  let a ← j.getArr?
  if a.size != 2 then throw "sval: want pair"
  match (← a[0]!.getStr?) with
  | "e" => return .exact (← ratFromJson a[1]!)
  | "r" => return .sqrt (← ratFromJson a[1]!)
  | t => throw s!"sval: bad tag {t}"

def pairsToJson {α} (f : α → Json) (l : List (String × α)) : Json :=
  Json.arr (l.map fun p => Json.arr #[Json.str p.1, f p.2]).toArray

def pairsFromJson {α} (f : Json → Except String α) (j : Json) : Except String (List (String × α)) := do
  (← j.getArr?).toList.mapM fun e => do
    let a ← e.getArr?
    if a.size != 2 then throw "pairs: want pairs"
    return (← a[0]!.getStr?, ← f a[1]!)

def Summary.toJson (s : Summary) : Json :=
  Json.mkObj [("fc", Json.bool s.isForecast), ("s", pairsToJson SVal.toJson s.stats)]

def Summary.fromJson (j : Json) : Except String Summary := do
  return { isForecast := ← (← j.getObjVal? "fc").getBool?,
           stats := ← pairsFromJson SVal.fromJson (← j.getObjVal? "s") }

def Record.toJson (r : Record) : Json :=
  Json.mkObj [("ps", r.ps.toJson), ("pe", r.pe.toJson), ("ev", r.ev.toJson),
    ("lag", ratToJson r.devLag), ("fields", Json.arr (r.fields.map Json.str).toArray),
    ("m", pairsToJson Summary.toJson r.metrics)]

def Record.fromJson (j : Json) : Except String Record := do
  return { ps := ← Date.fromJson (← j.getObjVal? "ps"), pe := ← Date.fromJson (← j.getObjVal? "pe"),
           ev := ← Date.fromJson (← j.getObjVal? "ev"), devLag := ← ratFromJson (← j.getObjVal? "lag"),
           fields := ← (← (← j.getObjVal? "fields").getArr?).toList.mapM (·.getStr?),
           metrics := ← pairsFromJson Summary.fromJson (← j.getObjVal? "m") }

def specJson (tol : Rat) (t : List Cell) (recs : List Record) : Json :=
  Json.mkObj [
    ("one_record_per_cell_in_order", Spec.C20.onePerCell tol t recs),
    ("loss_ratio_value", Spec.C20.valuesOk tol Spec.C20.Kind.isRatio t recs),
    ("passthrough_value", Spec.C20.valuesOk tol Spec.C20.Kind.isPass t recs),
    ("ata_neighbours_same_slice", Spec.C20.valuesOk tol Spec.C20.Kind.isAta t recs),
    ("absent_input_no_summary", Spec.C20.absentOk t recs),
    ("summary_monotone", Spec.C20.monotoneOk tol recs)]

def handle (j : Json) : Except String Json := do
  let cells ← cellsFromJson (← j.getObjVal? "cells")
  let tol ← match j.getObjVal? "tol" with
    | .ok v => ratFromJson v
    | .error _ => pure 0
  let model := buildPlotData Generated.PlotMetrics.metrics cells
  let spec ← match j.getObjVal? "impl" with
    | .ok v =>
      if v.isNull then pure Json.null
      else do
        let recs ← (← v.getArr?).toList.mapM Record.fromJson
        pure (specJson tol cells recs)
    | .error _ => pure Json.null
  return Json.mkObj [("model", Json.arr (model.map Record.toJson).toArray), ("spec", spec),
                     ("specModel", Json.bool (Spec.C20.holds 0 cells model))]

def main : IO Unit := serve handle
