import Bermuda.Model.Json
import Bermuda.Model.Plot
import Bermuda.Generated.PlotMetrics
import Bermuda.Spec.C20
open Lean Bermuda Bermuda.Plot

/-!
Driver of C20. One request per line:
  {"cells": [...], "impl": [record…] | null, "tol": "n/d"}
  {"cells": [...], "impl": [recordE…] | null, "tol": "n/d", "removeEmpties": bool}   (option stream: recordE = record
     + "e": [[metric name, summary | null (= the empty summary {})]…] in record order + "tt": [names the tooltip is
     joined from]; model = buildPlotDataOpt, spec = the clauses below + "summary_slots" + "tooltip_sources")
Record   {"ps","pe","ev","lag":"n/d","fields":[…],"m":[[name,{"fc":bool,"s":[[stat,["e"|"r","n/d"]]…]}]…]}
Answer   {"model": [record…], "spec": {clause: bool…} | null, "specModel": bool}
-/

def SVal.toJson : SVal → Json
  | .exact q => Json.arr #["e", ratToJson q]
  | .sqrt q => Json.arr #["r", ratToJson q]

def SVal.fromJson (j : Json) : Except String SVal := do
  let a ← j.getArr?
  if a.size != 2 then throw "sval: want pair"
  match (← a[0]!.getStr?) with
  | "e" => return .exact (← ratFromJson a[1]!)
  | "r" => return .sqrt (← ratFromJson a[1]!)
  | t => throw s!"sval: bad tag {t}"

def pairsToJson {α} (f : α → Json) (l : List (String × α)) : Json :=
  Json.arr (l.map fun p => Json.arr #[Json.str p.1, f p.2]).toArray

def pairsFromJson {α} (f : Json → Except String α) (j : Json) : Except String (List (String × α)) := do
  (← j.getArr?).toList.mapM fun e => do
    let a ← e.getArr?
    if a.size != 2 then throw "pairs: want pairs"
    return (← a[0]!.getStr?, ← f a[1]!)

def Summary.toJson (s : Summary) : Json :=
  Json.mkObj [("fc", Json.bool s.isForecast), ("s", pairsToJson SVal.toJson s.stats)]

def Summary.fromJson (j : Json) : Except String Summary := do
  return { isForecast := ← (← j.getObjVal? "fc").getBool?,
           stats := ← pairsFromJson SVal.fromJson (← j.getObjVal? "s") }

def Record.toJson (r : Record) : Json :=
  Json.mkObj [("ps", r.ps.toJson), ("pe", r.pe.toJson), ("ev", r.ev.toJson),
    ("lag", ratToJson r.devLag), ("fields", Json.arr (r.fields.map Json.str).toArray),
    ("m", pairsToJson Summary.toJson r.metrics)]

def Record.fromJson (j : Json) : Except String Record := do
  return { ps := ← Date.fromJson (← j.getObjVal? "ps"), pe := ← Date.fromJson (← j.getObjVal? "pe"),
           ev := ← Date.fromJson (← j.getObjVal? "ev"), devLag := ← ratFromJson (← j.getObjVal? "lag"),
           fields := ← (← (← j.getObjVal? "fields").getArr?).toList.mapM (·.getStr?),
           metrics := ← pairsFromJson Summary.fromJson (← j.getObjVal? "m") }

def specJson (tol : Rat) (t : List Cell) (recs : List Record) : Json :=
  Json.mkObj [
    ("one_record_per_cell_in_order", Spec.C20.onePerCell tol t recs),
    ("loss_ratio_value", Spec.C20.valuesOk tol Spec.C20.Kind.isRatio t recs),
    ("passthrough_value", Spec.C20.valuesOk tol Spec.C20.Kind.isPass t recs),
    ("ata_neighbours_same_slice", Spec.C20.valuesOk tol Spec.C20.Kind.isAta t recs),
    ("absent_input_no_summary", Spec.C20.absentOk t recs),
    ("summary_monotone", Spec.C20.monotoneOk tol recs)]

def entryToJson (e : Entry) : Json :=
  Json.arr #[Json.str e.1, match e.2 with | some s => Summary.toJson s | none => Json.null]

def entryFromJson (j : Json) : Except String Entry := do
  let a ← j.getArr?
  if a.size != 2 then throw "entry: want [name, summary|null]"
  return (← a[0]!.getStr?, ← if a[1]!.isNull then pure none else (Summary.fromJson a[1]!).map some)

/-- a record with its slots: the record's JSON plus "e": [[name, summary|null]…], "tt": [name…] -/
def recordEToJson (r : RecordE) : Json :=
  ((Record.toJson r.base).setObjVal! "e" (Json.arr (r.entries.map entryToJson).toArray)).setObjVal! "tt"
    (Json.arr (r.tooltip.map Json.str).toArray)

def recordEFromJson (j : Json) : Except String RecordE := do
  return { base := ← Record.fromJson j,
           entries := ← (← (← j.getObjVal? "e").getArr?).toList.mapM entryFromJson,
           tooltip := ← (← (← j.getObjVal? "tt").getArr?).toList.mapM (·.getStr?) }

def metricEntryFromJson (j : Json) : Except String MetricEntry := do
  let a ← j.getArr?
  if a.size != 2 then throw "metric entry: want [tag, value]"
  match (← a[0]!.getStr?) with
  | "mean" => return .mean (← ratFromJson a[1]!)
  | "samples" =>
    let l ← (← a[1]!.getArr?).toList.mapM fun e => do
      let p ← e.getArr?
      if p.size != 2 then throw "sample: want [index, value]"
      return (← p[0]!.getNat?, ← ratFromJson p[1]!)
    return .samples l
  | t => throw s!"metric entry: bad tag {t}"

/-- request with "removeEmpties": bool — the option stream: records carry "e" and "tt" -/
def handleOpt (j : Json) (b : Bool) : Except String Json := do
  let cells ← cellsFromJson (← j.getObjVal? "cells")
  let tol ← match j.getObjVal? "tol" with
    | .ok v => ratFromJson v
    | .error _ => pure 0
  let model := buildPlotDataOpt b Generated.PlotMetrics.metrics cells
  let spec ← match j.getObjVal? "impl" with
    | .ok v =>
      if v.isNull then pure Json.null
      else do
        let arr := (← v.getArr?).toList
        let recs ← arr.mapM recordEFromJson
        -- flat=True: "fk" = the raw `<metric>_<stat>` entries of the flat record in record order
        let fks ← arr.mapM fun rj => match rj.getObjVal? "fk" with
          | .ok f => (pairsFromJson SVal.fromJson f).map some
          | .error _ => pure none
        let flatOk := (recs.zip fks).all fun (r, fk) => match fk with
          | some l => Spec.C20.flatOk r l
          | none => true
        -- "ks" = [[metric name, ["mean", q] | ["samples", [[i, x]…]]]…]: the `metric` entry of every summary
        let keep : Bool := match j.getObjVal? "keepSamples" with
          | .ok (Json.bool k) => k
          | _ => false
        let kss ← arr.mapM fun rj => match rj.getObjVal? "ks" with
          | .ok f => (pairsFromJson metricEntryFromJson f).map some
          | .error _ => pure none
        let keptOk := recs.length != cells.length || ((cells.zip kss).all fun (c, ks) => match ks with
          | some l => Spec.C20.keptOk tol keep cells c l
          | none => true)
        let s0 := specJson tol cells (recs.map (·.base))
        let s1 := s0.setObjVal! "kept_metric_entries" (Json.bool keptOk)
        let s2 := s1.setObjVal! "summary_slots" (Json.bool (recs.all (Spec.C20.entriesOk b)))
        let s3 := s2.setObjVal! "tooltip_sources" (Json.bool (recs.all Spec.C20.tooltipOk))
        pure (s3.setObjVal! "flat_keys" (Json.bool flatOk))
    | .error _ => pure Json.null
  return Json.mkObj [("model", Json.arr (model.map recordEToJson).toArray), ("spec", spec),
                     ("specModel", Json.bool (Spec.C20.holdsOpt b 0 cells model))]

def handle (j : Json) : Except String Json := do
  match j.getObjVal? "removeEmpties" with
  | .ok v => return ← handleOpt j (← v.getBool?)
  | .error _ => pure ()
  let cells ← cellsFromJson (← j.getObjVal? "cells")
  let tol ← match j.getObjVal? "tol" with
    | .ok v => ratFromJson v
    | .error _ => pure 0
  let model := buildPlotData Generated.PlotMetrics.metrics cells
  let spec ← match j.getObjVal? "impl" with
    | .ok v =>
      if v.isNull then pure Json.null
      else do
        let recs ← (← v.getArr?).toList.mapM Record.fromJson
        pure (specJson tol cells recs)
    | .error _ => pure Json.null
  -- "nSlices": the model's slice count (`Triangle.slices`), the number of facets a chart must have
  return Json.mkObj [("model", Json.arr (model.map Record.toJson).toArray), ("spec", spec),
                     ("specModel", Json.bool (Spec.C20.holds 0 cells model)),
                     ("nSlices", ((Triangle.slices cells).length : Nat))]

def main : IO Unit := serve handle
