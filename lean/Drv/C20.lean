-- driver stub for C20: replaced by the real line-protocol driver
def main : IO Unit := pure ()
