import Lean
import Bermuda.Properties.C15
open Lean Elab Command
run_cmd do
  let env ← getEnv
  let some idx := env.getModuleIdx? `Bermuda.Properties.C15 | throwError "module not found"
  for n in env.header.moduleData[idx.toNat]!.constNames do
    if let some (.thmInfo _) := env.find? n then
      if n.isInternalDetail then continue
      let axs ← collectAxioms n
      IO.println s!"THEOREM {n} AXIOMS {axs.toList}"
