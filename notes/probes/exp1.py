import datetime as dt, warnings, itertools
warnings.simplefilter("ignore")
import numpy as np
import bermuda
from bermuda import Triangle, Cell, CumulativeCell, IncrementalCell, Metadata
D=dt.date
# C01: metadata differing only in loss_details
m1=Metadata(loss_details={"a":1}); m2=Metadata(loss_details={"a":2})
print("m1<m2",m1<m2,"m2<m1",m2<m1)
c1=CumulativeCell(D(2020,1,1),D(2020,3,31),D(2020,3,31),{"paid_loss":1},m1)
c2=CumulativeCell(D(2020,1,1),D(2020,3,31),D(2020,3,31),{"paid_loss":2},m2)
c3=CumulativeCell(D(2020,4,1),D(2020,6,30),D(2020,6,30),{"paid_loss":3},m1)
c4=CumulativeCell(D(2020,4,1),D(2020,6,30),D(2020,6,30),{"paid_loss":4},m2)
for perm in itertools.permutations([c1,c2,c3,c4]):
    t=Triangle(list(perm))
    print([c["paid_loss"] for c in t.cells], end=" ")
print()
# C02 prefix
t=Triangle([c1,c3]); p=Triangle([c1])
print("prefix eq:", t==p, p==t, "empty==t", Triangle([])==t)
print("hash eq", hash(t)==hash(Triangle([c3,c1])))
# C09 closures
from bermuda.utils.summarize import SUMMARIZE_DEFAULTS
vd={"paid_loss_developed":[1,2],"reported_loss_developed":[10,20],"incurred_loss_developed":[100,200],
    "paid_loss_prior":[3,4],"reported_loss_prior":[30,40],"incurred_loss_prior":[300,400]}
for k in ["paid_loss_developed","reported_loss_developed","incurred_loss_developed","paid_loss_prior","reported_loss_prior","incurred_loss_prior"]:
    print(k, SUMMARIZE_DEFAULTS[k](vd))
