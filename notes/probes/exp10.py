import datetime as dt, warnings, calendar, random, collections, tempfile, os
warnings.simplefilter("ignore")
import numpy as np
from bermuda import Triangle, CumulativeCell, IncrementalCell, Cell, Metadata
D=dt.date
def me(y,m): return D(y,m,calendar.monthrange(y,m)[1])
mA=Metadata(country="US",details={"s":"A","n":None},loss_details={"z":1.5}); mB=Metadata(details={"s":"B","d":D(2020,1,1)})
def exactcell(x,y):
    if type(x)!=type(y) or x.coordinates!=y.coordinates or x.metadata!=y.metadata or list(sorted(x.values))!=list(sorted(y.values)): return False
    for k in x.values:
        u,v=x.values[k],y.values[k]
        if isinstance(u,np.ndarray):
            if not isinstance(v,np.ndarray) or u.dtype!=v.dtype or u.shape!=v.shape or u.tobytes()!=v.tobytes(): return False
        elif type(u)!=type(v) or u!=v: return False
    return True
for inc in (False,True):
  for comp in (False,True):
    cells=[]
    for mi,m in enumerate([mA,mB]):
        for j in range(3):
            vals={"paid_loss":100*(mi+1)+j,"ep":1.5,"none":None,"arr":np.array([1.0,2.0,3.0]),"iarr":np.array([[1,2],[3,4]]),"b":True}
            if inc: cells.append(IncrementalCell(D(2020,1,1),me(2020,3),me(2020,3*j) if j else D(2019,12,31),me(2020,3+3*j),vals,m))
            else: cells.append(CumulativeCell(D(2020,1,1),me(2020,3),me(2020,3+3*j),vals,m))
    t=Triangle(cells)
    fn=tempfile.mktemp(suffix=".tribc" if comp else ".trib")
    t.to_binary(fn,compress=comp)
    data=open(fn,"rb").read()
    res=collections.Counter()
    for n in range(len(data)):
        open(fn,"wb").write(data[:n])
        try:
            r=Triangle.from_binary(fn)
            ok=len(r)<=len(t) and all(exactcell(a,b) for a,b in zip(r.cells,t.cells))
            res["prefix-ok" if ok else "BAD"]+=1
            if not ok: print("BAD at",n,len(r))
            elif comp: print("compressed truncated read OK at", n, len(r))
        except Exception as e:
            res[type(e).__name__]+=1
    print("inc",inc,"comp",comp,"len",len(data),dict(res))
    os.remove(fn)
