import datetime as dt, warnings, calendar, random, collections, tempfile, os, pickle, hashlib
warnings.simplefilter("ignore")
import numpy as np
import bermuda
from bermuda import Triangle, CumulativeCell, IncrementalCell, Cell, Metadata
from bermuda.utils import *
D=dt.date
def me(y,m): return D(y,m,calendar.monthrange(y,m)[1])
def fp(t):
    out=[]
    for c in t.cells:
        out.append((type(c).__name__,c.coordinates,repr(c.metadata),[(k,type(v).__name__,(v.dtype.str,v.shape,v.tobytes()) if isinstance(v,np.ndarray) else repr(v)) for k,v in c.values.items()]))
    return repr(out)
def tri(metas, nper=3, res=3, arr=False, inc=False):
    cells=[]
    for mi,m in enumerate(metas):
        for i in range(nper):
            ps=D(2020+(i*res)//12,(i*res)%12+1,1); pe_m=i*res+res-1; pe=me(2020+pe_m//12,pe_m%12+1)
            for j in range(nper-i):
                em=pe_m+j*res; ev=me(2020+em//12,em%12+1)
                v=100.0*(mi+1)+10*i+j+1
                cells.append(CumulativeCell(ps,pe,ev,{"paid_loss":np.array([v,v+1.0,v+2.0]) if arr else v,"reported_loss":np.array([2*v,2*v+1.0,2*v+2.0]) if arr else 2*v,"earned_premium":1000.0*(mi+1)},m))
    t=Triangle(cells)
    return t.to_incremental() if inc else t
mA=Metadata(currency="USD",details={"s":"A"}); mB=Metadata(currency="USD",details={"s":"B"})
ops={
 "to_incremental":lambda t,u:t.to_incremental(),
 "to_cumulative":lambda t,u:t.to_cumulative(),
 "aggregate":lambda t,u:t.aggregate(period_resolution=(6,"month")),
 "aggregate_ev":lambda t,u:t.aggregate(eval_resolution=(6,"month")),
 "summarize":lambda t,u:t.summarize(),
 "summarize_np":lambda t,u:t.summarize(summarize_premium=False),
 "merge":lambda t,u:t.merge(u),
 "coalesce":lambda t,u:t.coalesce([u]),
 "period_merge":lambda t,u:t.period_merge(u.right_edge.select(["earned_premium"]),suffix="_x"),
 "add_statics":lambda t,u:t.select(["paid_loss"]).add_statics(u),
 "blend_lin":lambda t,u:t.blend([u],weights=[0.5,0.5],method="linear"),
 "blend_mix":lambda t,u:t.select(["paid_loss","reported_loss"]).blend([u.select(["paid_loss","reported_loss"])],weights=[0.5,0.5],method="mixture",seed=1),
 "right_tri":lambda t,u:t.make_right_triangle(),
 "right_diag":lambda t,u:t.make_right_diagonal([D(2022,12,31)]),
 "thin":lambda t,u:t.thin(2,seed=1),
 "clip":lambda t,u:t.clip(max_eval=D(2020,9,30)),
 "select":lambda t,u:t.select(["paid_loss"]),
 "derive_fields":lambda t,u:t.derive_fields(x=lambda c:c["paid_loss"]*2),
 "derive_metadata":lambda t,u:t.derive_metadata(country="US",foo=1),
 "right_edge":lambda t,u:t.right_edge,
 "convert_currency":lambda t,u:convert_currency(t,"EUR",{"USD":0.5}),
 "disagg":lambda t,u:disaggregate_experience(t,1),
 "fill":lambda t,u:fill_forward_gaps(t),
 "backfill":lambda t,u:backfill(t),
 "bootstrap":lambda t,u:bootstrap(t,2,1),
 "moment":lambda t,u:moment_match(t,["paid_loss"],"normal"),
 "to_json":lambda t,u:t.to_json(),
 "wide_df":lambda t,u:t.to_wide_data_frame(),
 "long_df":lambda t,u:t.to_long_data_frame(),
 "plotdata":lambda t,u:bermuda.plot.build_plot_data(t),
 "add":lambda t,u:t+u,
 "replace":lambda t,u:t.replace(values=lambda c:{**c.values,"z":1}),
}
for arr in (False,True):
  for inc in (False,True):
    for name,op in ops.items():
        t=tri([mA,mB],arr=arr,inc=inc); u=tri([mA,mB],arr=arr,inc=inc)
        f1,f2=fp(t),fp(u)
        try: r=op(t,u); err=""
        except Exception as e: err=type(e).__name__+":"+str(e)[:50]
        ch = fp(t)!=f1 or fp(u)!=f2
        if ch or err: print("arr",arr,"inc",inc,name,"MUTATED" if ch else "", err)
