import datetime as dt, warnings, calendar
warnings.simplefilter("ignore")
import numpy as np
from bermuda import Triangle, CumulativeCell, IncrementalCell, Cell, Metadata
D=dt.date
cs=[CumulativeCell(D(2020,1,1),D(2020,3,31),D(2020,3+3*j,30 if j in(1,2) else 31),{"paid_loss":j}) for j in range(4)]
t=Triangle(cs)
print("gen:",len(Triangle(c for c in cs)),"tuple:",len(Triangle(tuple(cs))),"list",len(Triangle(cs)))
a=Triangle(cs[:3]); b=Triangle(cs[1:])
print("and",len(a&b),"sub",len(a-b),"or",len(a|b),"xor",len(a^b),"le",a<=t,t<=a,"lt",a<t,"isdisjoint",a.isdisjoint(Triangle(cs[3:])), "ge", t>=a)
print("cell in t", cs[0] in t, cs[0] in b)
c=Cell(D(2020,1,1),D(2020,3,31),D(2020,3,31),{"paid_loss":0})
print("Cell==CumCell",c==cs[0],"hash eq",hash(c)==hash(cs[0]))
i=IncrementalCell(D(2020,1,1),D(2020,3,31),D(2019,12,31),D(2020,3,31),{"paid_loss":0})
try: print(hash(i))
except Exception as e: print("hash incr:",e)
print("incr==cum", i==cs[0], cs[0]==i if False else "skip")
try: print("cum==incr", cs[0]==i)
except Exception as e: print("cum==incr ERR", e)
print("100==100.0 cell eq", CumulativeCell(D(2020,1,1),D(2020,3,31),D(2020,3,31),{"p":100})==CumulativeCell(D(2020,1,1),D(2020,3,31),D(2020,3,31),{"p":100.0}))
try: print("tri == non-tri", t==5)
except Exception as e: print("ERR",type(e).__name__, e)
