import datetime as dt, warnings, calendar, itertools, random
warnings.simplefilter("ignore")
import numpy as np
from bermuda import Triangle, CumulativeCell, IncrementalCell, Cell, Metadata
from bermuda.utils import join, merge, coalesce, period_merge, add_statics
D=dt.date
def me(y,m): return D(y,m,calendar.monthrange(y,m)[1])
mA=Metadata(country="US",details={"s":"A","k":1}); mB=Metadata(country="US",details={"s":"B","k":1})
U=[]
for m in (mA,mB):
    for p in range(2):
        for j in range(2):
            U.append((m,D(2020,1+3*p,1),me(2020,3+3*p),me(2020,3+3*p+3*j)))
def mk(sub,tag,inc=False):
    cells=[]
    for (m,ps,pe,ev) in sub:
        vals={"paid_loss":hash((tag,ps,ev))%1000, tag:1}
        cells.append(IncrementalCell(ps,pe,ps-dt.timedelta(days=1),ev,vals,m) if inc else CumulativeCell(ps,pe,ev,vals,m))
    return Triangle(cells)
key=lambda c:(c.metadata,c.period_start,c.period_end,c.evaluation_date)
rnd=random.Random(3); bad=0
for it in range(300):
    s1=[u for u in U if rnd.random()<0.5]; s2=[u for u in U if rnd.random()<0.5]
    if not s1 or not s2: continue
    inc=rnd.random()<0.3
    t1=mk(s1,"a",inc); t2=mk(s2,"b",inc)
    k1=set(map(key,t1)); k2=set(map(key,t2))
    exp={"full":k1|k2,"inner":k1&k2,"left":k1,"right":k2,"left_anti":k1-k2,"right_anti":k2-k1}
    for jt,e in exp.items():
        pairs=join(t1,t2,jt)
        got=[key(a if a is not None else b) for a,b in pairs]
        if sorted(got,key=repr)!=sorted(e,key=repr): bad+=1; print("join",jt,"mismatch")
        for a,b in pairs:
            if a is not None and a not in t1.cells: bad+=1; print("left not original")
            if b is not None and b not in t2.cells: bad+=1
            if a is not None and b is not None and key(a)!=key(b): bad+=1
            if jt in("left","full","left_anti") and a is not None and (b is None)!=(key(a) not in k2): bad+=1; print("pairing wrong")
        mg=merge(t1,t2,jt)
        if set(map(key,mg))!=e or len(mg)!=len(e): bad+=1; print("merge coords",jt)
        for c in mg:
            a=next((x for x in t1 if key(x)==key(c)),None); b=next((x for x in t2 if key(x)==key(c)),None)
            ev={**(a.values if a else {}),**(b.values if b else {})}
            if c.values!=ev: bad+=1; print("merge values",jt,c.values,ev)
    # coalesce
    t3=mk([u for u in U if rnd.random()<0.5] or U[:1],"c",inc)
    co=coalesce([t1,t2,t3])
    for c in co:
        src=next(x for t in (t1,t2,t3) for x in t if key(x)==key(c))
        if c is not src and not (c==src and c.values==src.values): bad+=1; print("coalesce wrong")
    if set(map(key,co))!=k1|k2|set(map(key,t3)): bad+=1; print("coalesce coords")
    # merge(t,t)==t
    m=merge(t1,t1)
    if len(m)!=len(t1) or any(x.values!=y.values or key(x)!=key(y) for x,y in zip(m,t1)): bad+=1; print("merge idem")
print("bad",bad)
# on=
t1=mk(U[:4],"a"); t2=Triangle([c.derive_metadata(k=2) for c in mk(U[:4],"b")])
print("on s:", len(join(t1,t2,"inner",on=["s"])), "no on:", len(join(t1,t2,"inner")), join(t1,t2,"inner",on=["s"])[0][0].metadata)
print("on country only (collisions):", len(join(t1,t2,"full",on=["country"])))
# add_statics
src=mk(U,"ep"); tgt=mk(U[:6],"x").select(["paid_loss"])
r=add_statics(tgt,src,["ep"])
print(len(r)==len(tgt), all("ep" in c.values for c in r), [sorted(c.values) for c in r][:2])
