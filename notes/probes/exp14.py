import datetime as dt, warnings, calendar, itertools, random, math
warnings.simplefilter("ignore")
import numpy as np
from bermuda import Triangle, CumulativeCell, IncrementalCell, Cell, Metadata
from bermuda.utils import *
D=dt.date
def me(y,m): return D(y,m,calendar.monthrange(y,m)[1])
rnd=random.Random(11)
def gen(rnd, aligned=None):
    aligned = rnd.random()<0.6 if aligned is None else aligned
    metas=[Metadata(details={"s":i}) for i in range(rnd.randint(1,3))]
    cells=[]
    if aligned:
        res=rnd.choice([1,3,6,12]); evres=rnd.choice([1,3,6,12]); start=rnd.randrange(0,12)
        for m in metas:
            for p in range(rnd.randint(1,4)):
                if rnd.random()<0.2: continue
                ps=start+p*res; pe=ps+res-1
                for j in range(rnd.randint(1,4)):
                    if rnd.random()<0.15: continue
                    em=pe+j*evres
                    cells.append(CumulativeCell(D(2018+ps//12,ps%12+1,1),me(2018+pe//12,pe%12+1),me(2018+em//12,em%12+1),{"paid_loss":rnd.randint(0,99),**({"x":1} if rnd.random()<0.3 else {})},m))
    else:
        for m in metas:
            for p in range(rnd.randint(1,3)):
                ps=D(2019,1,1)+dt.timedelta(days=rnd.randint(0,300)); pe=ps+dt.timedelta(days=rnd.randint(0,120))
                for e in sorted(rnd.sample(range(0,400),rnd.randint(1,3))):
                    cells.append(CumulativeCell(ps,pe,ps+dt.timedelta(days=e),{"paid_loss":rnd.randint(0,99)},m))
    return Triangle(cells)
bad=0
for it in range(500):
    t=gen(rnd)
    if len(t)==0: continue
    cs=t.cells
    # C13 accessors
    if t.periods!=sorted({c.period for c in cs}): bad+=1; print("periods")
    if t.evaluation_dates!=sorted({c.evaluation_date for c in cs}): bad+=1
    if t.fields!=sorted({k for c in cs for k in c.values}): bad+=1
    if t.field_cell_counts!={f:sum(f in c.values for c in cs) for f in t.fields}: bad+=1; print("fcc")
    if t.field_slice_counts!={f:len({c.metadata for c in cs if f in c.values}) for f in t.fields}: bad+=1; print("fsc")
    ps_=t.periods
    disj=all(a[1]<b[0] for a,b in zip(ps_,ps_[1:]))
    # independent: any pair of distinct periods overlapping
    disj2=not any(a[0]<=b[1] and b[0]<=a[1] for a,b in itertools.combinations(ps_,2))
    if t.is_disjoint!=disj2: bad+=1; print("is_disjoint",t.is_disjoint,disj2,ps_)
    if t.is_regular() and not t.is_semi_regular(): bad+=1
    if t.is_semi_regular() and not t.is_disjoint: bad+=1
    cm=t.common_metadata
    for m,dm in zip(t.metadata,t.metadata_differences):
        # recombine
        rec=Metadata(risk_basis=cm.risk_basis if cm.risk_basis is not None else dm.risk_basis, country=cm.country or dm.country,currency=cm.currency or dm.currency,reinsurance_basis=cm.reinsurance_basis or dm.reinsurance_basis,loss_definition=cm.loss_definition or dm.loss_definition,per_occurrence_limit=cm.per_occurrence_limit if cm.per_occurrence_limit is not None else dm.per_occurrence_limit,details={**cm.details,**dm.details},loss_details={**cm.loss_details,**dm.loss_details})
        if rec!=m: bad+=1; print("recombine",cm,dm,m)
    # C11 clip
    evs=t.evaluation_dates; 
    b=rnd.choice(evs)+dt.timedelta(days=rnd.choice([-1,0,1]))
    lo=t.clip(max_eval=b); hi=t.clip(min_eval=b+dt.timedelta(days=1))
    if len(lo)+len(hi)!=len(t) or [c for c in cs if c.evaluation_date<=b]!=lo.cells: bad+=1; print("clip eval")
    lag=rnd.choice(t.dev_lags())
    a=t.clip(max_dev=lag); 
    if a.cells!=[c for c in cs if c.dev_lag()<=lag]: bad+=1; print("clip dev")
    a=t.clip(min_dev=lag,max_eval=b,min_period=ps_[0][0],max_period=ps_[-1][1])
    if a.cells!=[c for c in cs if c.dev_lag()>=lag and c.evaluation_date<=b and c.period_start>=ps_[0][0] and c.period_end<=ps_[-1][1]]: bad+=1; print("clip conj")
    re_=t.right_edge
    exp=[]
    for m in t.metadata:
        for p in sorted({c.period for c in cs if c.metadata==m}):
            exp.append(max((c for c in cs if c.metadata==m and c.period==p),key=lambda c:c.evaluation_date))
    if re_.cells!=Triangle(exp).cells or len(re_)!=len(exp): bad+=1; print("right_edge")
    sl=t.slices
    if sum(len(s) for s in sl.values())!=len(t) or any(c.metadata!=m for m,s in sl.items() for c in s): bad+=1; print("slices")
    # getitem
    c0=rnd.choice(cs)
    g=t[c0.period_start, c0.evaluation_date, c0.metadata]
    if g.metadata!=c0.metadata or g.period_start!=c0.period_start or g.evaluation_date!=c0.evaluation_date: bad+=1; print("getitem")
    g2=t[c0.period_start:c0.period_start, :c0.evaluation_date, :]
    if g2.cells!=[c for c in cs if c.period_start==c0.period_start and c.evaluation_date<=c0.evaluation_date]: bad+=1; print("getitem slice")
    if list(t.extract("paid_loss"))!=[c.values.get("paid_loss") for c in cs]: bad+=1; print("extract")
print("bad",bad)
