import datetime as dt, warnings, calendar, itertools, random, math
warnings.simplefilter("ignore")
import numpy as np
from bermuda import Triangle, CumulativeCell, IncrementalCell, Cell, Metadata
from bermuda.utils import *
D=dt.date
def me(y,m): return D(y,m,calendar.monthrange(y,m)[1])
def tri(metas, nper=3, res=3, arr=0, inc=False, tri_shape=True, seed=0, pos=True):
    rnd=random.Random(seed); cells=[]
    for mi,m in enumerate(metas):
        for i in range(nper):
            ps=D(2020+(i*res)//12,(i*res)%12+1,1); pe_m=i*res+res-1; pe=me(2020+pe_m//12,pe_m%12+1)
            for j in range(nper-i if tri_shape else nper):
                em=pe_m+j*res; ev=me(2020+em//12,em%12+1)
                def v(): 
                    return np.array([rnd.randint(1,800)/8 for _ in range(arr)]) if arr else rnd.randint(1,800)/8
                cells.append(CumulativeCell(ps,pe,ev,{"paid_loss":v(),"reported_loss":v(),"earned_premium":1024.0},m))
    t=Triangle(cells)
    return t.to_incremental() if inc else t
mA=Metadata(currency="USD",details={"s":"A"}); mB=Metadata(currency="GBP",details={"s":"B"})
# C16
t1=tri([mA,mB],arr=4,seed=1); t2=tri([mA,mB],arr=4,seed=2); t3=tri([mA,mB],seed=3)
try: print("blend single None:", len(blend([t1])))
except Exception as e: print("blend single None ERR:",type(e).__name__,e)
try: print("blend single [1.0]:", len(blend([t1],weights=[1.0],method="linear")))
except Exception as e: print("ERR:",type(e).__name__,e)
b=blend([t1,t2,t3],weights=[0.25,0.25,0.5],method="linear")
ok=all(np.allclose(c["paid_loss"],0.25*a["paid_loss"]+0.25*b_["paid_loss"]+0.5*c3["paid_loss"]) for c,a,b_,c3 in zip(b,t1,t2,t3))
print("linear ok",ok, type(b.cells[0]["earned_premium"]), b.cells[0]["earned_premium"])
# per-cell weights
n=len(t1); W={"a":np.linspace(0,1,n),"b":1-np.linspace(0,1,n)}
b=blend([t1,t2],weights=W,method="linear")
ok=all(np.allclose(c["paid_loss"],w1*a["paid_loss"]+(1-w1)*b_["paid_loss"]) for c,a,b_,w1 in zip(b,t1,t2,np.linspace(0,1,n)))
print("per-cell ok",ok)
m=blend([t1,t2],weights=[0.5,0.5],method="mixture",seed=3)
ok=all(all((x==a_ or x==b_) for x,a_,b_ in zip(c["paid_loss"],a["paid_loss"],b_["paid_loss"])) for c,a,b_ in zip(m,t1,t2))
print("mixture membership",ok, m.cells[0]["earned_premium"])
m2=blend([t1,t2],weights=[0.5,0.5],method="mixture",seed=3)
print("repro", all(np.array_equal(x["paid_loss"],y["paid_loss"]) for x,y in zip(m,m2)))
m3=blend([t1,t2],weights=[1.0,0.0],method="mixture",seed=3)
print("degenerate", all(np.array_equal(x["paid_loss"],y["paid_loss"]) for x,y in zip(m3,t1)))
# different coords refused?
try: blend([t1, Triangle(t2.cells[:-1]+[t2.cells[-1].replace(evaluation_date=D(2030,12,31))])],method="linear",weights=[.5,.5]); print("diff coords NOT refused")
except ValueError as e: print("diff coords refused")
# C17
t=tri([mA,mB],nper=4,seed=5)
bs=bootstrap(t,3,seed=7); bs2=bootstrap(t,3,seed=7)
print(len(bs), [len(x) for x in bs], all([c.coordinates for c in x]==[c.coordinates for c in t] for x in bs))
print("details", [sorted({c.metadata.details.get("bootstrap") for c in x}) for x in bs])
print("same seed same", all(all(a.values==b.values for a,b in zip(x,y)) for x,y in zip(bs,bs2)))
first_ok=True
for x in bs:
    for c,o in zip(x,t):
        if o.dev_lag()==0.0 and c.values!=o.values: first_ok=False
print("first cell unchanged", first_ok, "fields same", all(set(c.values)==set(o.values) for x in bs for c,o in zip(x,t)))
row=Triangle([c for c in tri([mA],nper=5,seed=9) if c.period_start==D(2020,1,1)])
bs=bootstrap(row,2,seed=1)
src=[c["paid_loss"] for c in row]; 
for x in bs:
    r=[c["paid_loss"] for c in x]; print("rank same", list(np.argsort(src))==list(np.argsort(r)), min(r)>=0, max(r)<=max(src))
ta=tri([mA],arr=6,seed=4)
th=ta.thin(3,seed=2)
idx=None; ok=True
for c,o in zip(th,ta):
    for f in ("paid_loss","reported_loss"):
        pos=[list(o[f]).index(v) for v in c[f]]
        if idx is None: idx=pos
        if pos!=idx: ok=False
print("thin consistent",ok,idx, th.cells[0]["earned_premium"], ta.thin(6) is ta)
try: ta.thin(7); print("thin >n not refused")
except ValueError: print("thin >n refused")
np.random.seed(0)
mm=moment_match(ta,["paid_loss"],"gamma")
print("mm rank", all(list(np.argsort(np.argsort(c["paid_loss"])))==list(np.argsort(np.argsort(o["paid_loss"]))) for c,o in zip(mm,ta)), all(np.array_equal(c["reported_loss"],o["reported_loss"]) for c,o in zip(mm,ta)))
# C18 currency
tc=tri([mA,mB],seed=2).derive_fields(reported_claims=5)
cc=convert_currency(tc,"USD",{"GBP":1.25})
ok=True
for c in cc:
    o=next(x for x in tc if x.coordinates==c.coordinates and x.metadata.details==c.metadata.details)
    r=1.25 if o.metadata.currency=="GBP" else 1.0
    for f in c.values:
        e=o[f]*r if f in ("paid_loss","reported_loss","earned_premium") else o[f]
        if c[f]!=e: ok=False
    if c.metadata.currency!="USD": ok=False
print("currency ok",ok,len(cc)==len(tc))
# disaggregate
tq=tri([mA],res=12,nper=3,seed=3)
dq=disaggregate_experience(tq,3,period_weights=[0.25,0.25,0.25,0.25])
back=dq.aggregate(period_resolution=(12,"month"))
print("disagg back", len(back)==len(tq), all(b.values==o.values and b.coordinates==o.coordinates for b,o in zip(back,tq)))
dq=disaggregate_experience(tq,6,period_weights=[0.75,0.25]); back=dq.aggregate(period_resolution=(12,"month"))
print("disagg back w", len(back)==len(tq), all(b.values==o.values and b.coordinates==o.coordinates for b,o in zip(back,tq)))
