import datetime as dt, warnings, calendar, random, collections
warnings.simplefilter("ignore")
import numpy as np
from bermuda import Triangle, CumulativeCell, Metadata
from bermuda.utils import accident_quarter_to_policy_year, program_earned_premium
D=dt.date
def me(y,m): return D(y,m,calendar.monthrange(y,m)[1])
def mend(i): return me(2015+i//12,i%12+1)
def mstart(i): return D(2015+i//12,i%12+1,1)
rnd=random.Random(3); bad=0; n=0
for it in range(300):
    res=rnd.choice([1,3,6,12]); evres=rnd.choice([1,3]); start=rnd.randrange(0,12)
    cells=[]
    for mi in range(rnd.randint(1,2)):
        for p in range(rnd.randint(1,4)):
            ps=start+p*res; pe=ps+res-1
            for j in range(rnd.randint(1,8)):
                if rnd.random()<0.1: continue
                cells.append(CumulativeCell(mstart(ps),mend(pe),mend(pe+j*evres),{"paid_loss":rnd.randint(0,1000)},Metadata(details={"s":mi})))
    t=Triangle(cells)
    if not len(t): continue
    er=rnd.choice([1,3,6,12]); eo=mend(rnd.randrange(-6,90))
    a=t.aggregate(eval_resolution=(er,"month"),eval_origin=eo)
    oid=(eo.year-2015)*12+eo.month-1
    exp=[c for c in t if (((c.evaluation_date.year-2015)*12+c.evaluation_date.month-1)-oid)%er==0]
    # per-slice: grid is per slice but same origin -> same
    if a.cells!=Triangle(exp).cells or len(a)!=len(exp):
        bad+=1; print("eval agg mismatch",er,eo,len(a),len(exp), sorted({c.evaluation_date for c in t})[:3])
    n+=1
    # incremental commutation
    keys=[(c.metadata,c.coordinates) for c in t]
    if len(set(keys))==len(keys):
        pr=rnd.choice([3,6,12])
        try:
            x=t.to_incremental().aggregate(period_resolution=(pr,"month"))
            y=t.aggregate(period_resolution=(pr,"month")).to_incremental()
            if x.cells!=y.cells or len(x)!=len(y): bad+=1; print("incr commute")
        except Exception as e: pass
print("n",n,"bad",bad)
# policy year
cells=[]
for q in range(8):
    ps=mstart(3*q); pe=mend(3*q+2)
    for ev in range(3*q+2, 24, 3):
        cells.append(CumulativeCell(ps,pe,mend(ev),{"paid_loss":float(rnd.randint(1,100)*8),"earned_premium":float(rnd.randint(1,100)*8)},Metadata(country="US")))
t=Triangle(cells)
for origin in [D(2020,1,1),D(2020,4,1),D(2020,7,1)]:
    for pl in (12,6):
        p=accident_quarter_to_policy_year(t,policy_length_months=pl,policy_year_origin=origin)
        ok=True
        for ev in t.evaluation_dates:
            for f in ("paid_loss","earned_premium"):
                a=sum(c[f] for c in t if c.evaluation_date==ev); b=sum(c[f] for c in p if c.evaluation_date==ev)
                if abs(a-b)>1e-6*max(1,a): ok=False; print("PY total",origin,pl,ev,f,a,b)
        print("policy year",origin,pl,"conserved",ok,{c.metadata.risk_basis for c in p}, len(p))
for wp,wr,ep,er_,orr,off,cont in [([1,2,3,4],3,[1,1],6,3,0,True),([1],12,[1,2,1],4,3,2,False),([2,1],1,[1],1,1,0,True),([1,1,1],1,[1,1,1,1],3,12,5,True)]:
    w,e=program_earned_premium(1000.0,np.array(wp,float),wr,np.array(ep,float),er_,orr,off,cont)
    print("premium", round(w.sum(),6), round(e.sum(),6), (w>=0).all(), (e>=-1e-12).all(), (np.cumsum(e)<=np.cumsum(w)+1e-9).all(), len(w),len(e))
