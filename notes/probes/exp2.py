import datetime as dt, warnings, itertools, os, tempfile
warnings.simplefilter("ignore")
import numpy as np
import bermuda
from bermuda import Triangle, Cell, CumulativeCell, IncrementalCell, Metadata
D=dt.date
def exact(a,b):
    if len(a)!=len(b): return False
    for x,y in zip(a,b):
        if type(x)!=type(y) or x.coordinates!=y.coordinates or x.metadata!=y.metadata: return False
        if set(x.values)!=set(y.values): return False
        for k in x.values:
            u,v=x.values[k],y.values[k]
            if type(u)!=type(v): return False
            if isinstance(u,np.ndarray):
                if u.dtype!=v.dtype or u.shape!=v.shape or u.tobytes()!=v.tobytes(): return False
            elif u!=v: return False
    return True
# C05: many keys
for nkeys in [100,136,137,138,300,393,400]:
    vals={f"f{i:04d}":i for i in range(nkeys)}
    t=Triangle([CumulativeCell(D(2020,1,1),D(2020,3,31),D(2020,3,31),vals)])
    fn=tempfile.mktemp(suffix=".trib")
    t.to_binary(fn)
    try:
        r=Triangle.from_binary(fn)
        print(nkeys, "roundtrip exact:", exact(t.cells,r.cells), len(r), len(r.cells[0].values) if len(r) else None)
    except Exception as e:
        print(nkeys,"ERR",type(e).__name__,e)
    os.remove(fn)
# value types
vals={"a":1,"b":1.5,"c":None,"d":np.array([1,2,3]),"e":np.array([1.5,2.5]),"f":np.int64(3),"g":np.float64(2.5),"h":True,"i":np.array([[1,2],[3,4]]),"j":np.array(5),"k":np.array([],dtype=np.float64)}
m=Metadata(country="ÜS",details={"s":"x","b":True,"i":3,"f":1.5,"d":D(2020,1,1),"n":None},loss_details={"z":"é"},per_occurrence_limit=5)
t=Triangle([CumulativeCell(D(2020,1,1),D(2020,3,31),D(2020,3,31),vals,m)])
fn=tempfile.mktemp(suffix=".trib"); t.to_binary(fn); r=Triangle.from_binary(fn)
for k in vals:
    print(k, repr(vals[k]), type(vals[k]).__name__, "->", repr(r.cells[0].values[k]), type(r.cells[0].values[k]).__name__)
print(r.cells[0].metadata)
print(type(r.cells[0].metadata.per_occurrence_limit))
# empty
t=Triangle([]); t.to_binary(fn); print("empty", len(Triangle.from_binary(fn)))
# NaN limit / float nan
