import datetime as dt, warnings, time
warnings.simplefilter("ignore")
from bermuda.date_utils import *
D=dt.date
print(add_months(D(1962,5,17),3.0), add_months(D(1969,12,31),0), add_months(D(1969,12,15),0), add_months(D(1969,11,30),1))
# inverse law sample 1970..2100
import random
random.seed(1)
lo=D(1970,1,1).toordinal(); hi=D(2100,12,31).toordinal()
bad=0; n=0
t0=time.time()
for _ in range(200000):
    p=D.fromordinal(random.randint(lo,hi)); e=D.fromordinal(random.randint(lo,hi))
    n+=1
    if add_months(p,dev_lag_months(p,e))!=e:
        bad+=1
        if bad<6: print("BAD",p,e,dev_lag_months(p,e),add_months(p,dev_lag_months(p,e)))
print(n,bad,time.time()-t0)
# integer month addition maps month ends to month ends; k then -k
import calendar
def is_me(d): return d.day==calendar.monthrange(d.year,d.month)[1]
bad=0;n=0
for _ in range(200000):
    p=D.fromordinal(random.randint(lo+600*31,hi-600*31)); k=random.randint(-600,600)
    q=add_months(p,k)
    n+=1
    if is_me(p) and not is_me(q): bad+=1; print("ME",p,k,q)
    if is_me(p) and add_months(q,-k)!=p: bad+=1; print("INV",p,k,q,add_months(q,-k))
print(n,bad)
# pre-1970
bad=0
for _ in range(20000):
    p=D.fromordinal(random.randint(D(1900,1,1).toordinal(),lo-1)); e=D.fromordinal(random.randint(D(1900,1,1).toordinal(),lo-1))
    if add_months(p,dev_lag_months(p,e))!=e: bad+=1
print("pre1970 bad",bad,"/20000")
print(add_months(D(2020,1,31),1), add_months(D(2020,1,30),1), add_months(D(2020,1,15),1),add_months(D(2020,2,15),1))
