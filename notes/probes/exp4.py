import datetime as dt, warnings, itertools, os, tempfile, traceback
warnings.simplefilter("ignore")
import numpy as np
import bermuda
from bermuda import Triangle, Cell, CumulativeCell, IncrementalCell, Metadata
from bermuda.utils import fill_forward_gaps, backfill
D=dt.date
def me(y,m):
    import calendar
    return D(y,m,calendar.monthrange(y,m)[1])
def tri(metas, nper=3, res=3, ragged=False, drop=()):
    cells=[]
    for mi,m in enumerate(metas):
        for i in range(nper):
            ps=D(2020+ (i*res)//12, (i*res)%12+1,1)
            pe_m=(i*res+res-1); pe=me(2020+pe_m//12, pe_m%12+1)
            for j in range(nper-i):
                em=pe_m+j*res; ev=me(2020+em//12, em%12+1)
                if (mi,i,j) in drop: continue
                cells.append(CumulativeCell(ps,pe,ev,{"paid_loss":100*(mi+1)+10*i+j,"earned_premium":1000*(mi+1)},m))
    return Triangle(cells)
mA=Metadata(details={"s":"A"}); mB=Metadata(details={"s":"B"})
# C15 fill_forward_gaps multi-slice
t=tri([mA,mB],drop={(0,0,1)})
f=fill_forward_gaps(t)
print("fill: in",len(t),"out",len(f), "slices out", {m.details['s']:len(s) for m,s in f.slices.items()})
t1=tri([mA],drop={(0,0,1)}); f1=fill_forward_gaps(t1); print("single slice fill: in",len(t1),"out",len(f1))
# backfill multi-slice
t=tri([mA,mB],drop={(0,0,0),(1,0,0)})
b=backfill(t)
print("backfill in",len(t),"out",len(b),{m.details['s']:len(s) for m,s in b.slices.items()})
# make_right_triangle incremental complete
sq=Triangle([c for c in tri([mA]).cells if c.period_start==D(2020,1,1)])
print("right tri of single row cum:", len(sq.make_right_triangle()))
try:
    print("right tri of single row incr:", len(sq.to_incremental().make_right_triangle()))
except Exception as e: print("ERR incr complete:",type(e).__name__,e)
t=tri([mA,mB])
r=t.make_right_triangle(); print("right tri", len(r), r.cells[0])
ri=t.to_incremental().make_right_triangle(); print("right tri incr", len(ri), ri.cells[0])
