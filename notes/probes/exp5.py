import datetime as dt, warnings, itertools, os, tempfile, traceback, calendar
warnings.simplefilter("ignore")
import numpy as np
import bermuda
from bermuda import Triangle, Cell, CumulativeCell, IncrementalCell, Metadata
D=dt.date
def me(y,m): return D(y,m,calendar.monthrange(y,m)[1])
def tri(metas, nper=3, res=3, evres=None, drop=(), arr=False):
    evres=evres or res
    cells=[]
    for mi,m in enumerate(metas):
        for i in range(nper):
            ps=D(2020+ (i*res)//12, (i*res)%12+1,1)
            pe_m=(i*res+res-1); pe=me(2020+pe_m//12, pe_m%12+1)
            for j in range(nper-i):
                em=pe_m+j*evres; ev=me(2020+em//12, em%12+1)
                if (mi,i,j) in drop: continue
                v=100*(mi+1)+10*i+j
                cells.append(CumulativeCell(ps,pe,ev,{"paid_loss":np.array([v,v+1.0,v+2.0]) if arr else v,"earned_premium":1000*(mi+1)},m))
    return Triangle(cells)
fn=tempfile.mktemp(suffix=".csv")
for name,(ma,mb) in {"country":(Metadata(country="US"),Metadata(country="GB")),
  "currency":(Metadata(currency="USD"),Metadata(currency="GBP")),
  "reins":(Metadata(reinsurance_basis="Gross"),Metadata(reinsurance_basis="Net")),
  "lossdef":(Metadata(loss_definition="Loss"),Metadata(loss_definition="Loss+DCC")),
  "risk":(Metadata(risk_basis="Accident"),Metadata(risk_basis="Policy")),
  "limit":(Metadata(per_occurrence_limit=1e6),Metadata(per_occurrence_limit=2e6)),
  "detail":(Metadata(details={"s":"A"}),Metadata(details={"s":"B"})),
  }.items():
    t=tri([ma,mb])
    for kind in ["wide","long"]:
        try:
            if kind=="wide":
                t.to_wide_csv(fn); r=Triangle.from_wide_csv(fn, field_cols=["paid_loss","earned_premium"])
            else:
                t.to_long_csv(fn); r=Triangle.from_long_csv(fn)
            print(name,kind,"cells",len(t),"->",len(r),"slices",len(t.slices),"->",len(r.slices), "eq", r==t and len(r)==len(t))
        except Exception as e:
            print(name,kind,"ERR",type(e).__name__,str(e)[:100])
# matrix roundtrip different resolutions
from bermuda.io.matrix import triangle_to_matrix, matrix_to_triangle
for res,evres in [(3,3),(12,12),(12,3),(3,12),(3,6),(6,3),(1,1)]:
    t=tri([Metadata()],nper=3,res=res,evres=evres)
    try:
        r=matrix_to_triangle(triangle_to_matrix(t))
        ok=len(r)==len(t) and all(a.coordinates==b.coordinates for a,b in zip(r.cells,t.cells))
        print("matrix",res,evres,"len",len(t),len(r),"coords ok",ok)
    except Exception as e: print("matrix",res,evres,"ERR",type(e).__name__,str(e)[:100])
# array df roundtrip
for res in [1,3,6,12]:
    t=tri([Metadata()],nper=3,res=res).select(["paid_loss"])
    df=t.to_array_data_frame("paid_loss")
    try:
        r=Triangle.from_array_data_frame(df,"paid_loss")
        ok=len(r)==len(t) and all(a.coordinates==b.coordinates and a.values==b.values for a,b in zip(r.cells,t.cells))
        print("arraydf",res,len(t),len(r),ok)
    except Exception as e: print("arraydf",res,"ERR",type(e).__name__,str(e)[:100])
