import datetime as dt, warnings, calendar
warnings.simplefilter("ignore")
import numpy as np
from bermuda import Triangle, CumulativeCell, Metadata
from bermuda.io.matrix import triangle_to_matrix, matrix_to_triangle
from bermuda.io.rich_matrix import triangle_to_rich_matrix, rich_matrix_to_triangle
D=dt.date
def me(y,m): return D(y,m,calendar.monthrange(y,m)[1])
cells=[]
for q in range(4):
    ps=D(2020,3*q+1,1); pe=me(2020,3*q+3)
    for y in (2020,2021,2022):
        cells.append(CumulativeCell(ps,pe,me(y,12),{"paid_loss":float(q*10+y-2020+1)}))
t=Triangle(cells)
print("period_res",t.period_resolution,"eval_res",t.eval_date_resolution, t.dev_lags())
for nm,(f,g) in {"matrix":(triangle_to_matrix,matrix_to_triangle),"rich":(triangle_to_rich_matrix,rich_matrix_to_triangle)}.items():
    try:
        m=f(t); r=g(m)
        print(nm,m.data.shape,len(t),len(r),[ (c.period_start.month,c.evaluation_date) for c in r.cells][:6])
        print(" same coords:", [c.coordinates for c in r.cells]==[c.coordinates for c in t.cells])
    except Exception as e: print(nm,"ERR",type(e).__name__,e)
# annual periods, quarterly evals
cells=[]
for y in (2018,2019):
    for k in range(0,5):
        em=11+3*k; cells.append(CumulativeCell(D(y,1,1),D(y,12,31),me(y+em//12,em%12+1),{"paid_loss":float(k+1)}))
t=Triangle(cells)
print("period_res",t.period_resolution,"eval_res",t.eval_date_resolution, t.dev_lags())
for nm,(f,g) in {"matrix":(triangle_to_matrix,matrix_to_triangle),"rich":(triangle_to_rich_matrix,rich_matrix_to_triangle)}.items():
    try:
        m=f(t); r=g(m)
        print(nm,m.data.shape,len(t),len(r)," same coords:", [c.coordinates for c in r.cells]==[c.coordinates for c in t.cells])
    except Exception as e: print(nm,"ERR",type(e).__name__,e)
