import datetime as dt, warnings, calendar, json
warnings.simplefilter("ignore")
import numpy as np
from bermuda import Triangle, CumulativeCell, IncrementalCell, Cell, Metadata
import bermuda
from bermuda.plot import build_plot_data, FieldSummary
D=dt.date
def me(y,m): return D(y,m,calendar.monthrange(y,m)[1])
# C20
x=np.arange(1,1001,dtype=float)
fs=FieldSummary.from_metric("Paid Loss",x)
print({k:getattr(fs,k) for k in ["q2_5","q5","q10","q20","q50","q80","q90","q95","q97_5","mean","median","sd","min","max"]})
mA=Metadata(details={"s":"A"}); mB=Metadata(details={"s":"B"})
cells=[]
for mi,m in enumerate([mA,mB]):
    for j in range(3):
        cells.append(CumulativeCell(D(2020,1,1),me(2020,3),me(2020,3+3*j),{"paid_loss":100.0*(mi+1)*(j+1),"earned_premium":1000.0},m))
t=Triangle(cells)
pd_=build_plot_data(t, flat=False)
for rec,c in zip(pd_,t.cells):
    print(c.metadata.details, c.evaluation_date, rec["dev_lag"], rec.get("paid_ata",{}).get("metric"), rec.get("paid_loss_ratio",{}).get("metric"))
# C07 JSON
m=Metadata(risk_basis="Policy",country="US",currency="USD",reinsurance_basis="Net",loss_definition="Loss",per_occurrence_limit=1e6,details={"a":"x","b":1,"c":1.5,"d":True},loss_details={"p":"q"})
c1=CumulativeCell(D(2020,1,1),me(2020,3),me(2020,3),{"paid_loss":1,"reported_loss":2.0,"x":None,"arr":np.array([1.0,2.0]),"iarr":np.array([1,2])},m)
t=Triangle([c1])
s=t.to_json(); print(s)
r=bermuda.json_string_to_triangle(s); print(r.cells[0])
print({k:type(v).__name__+":"+str(getattr(v,"dtype","")) for k,v in r.cells[0].values.items()})
ti=Triangle([IncrementalCell(D(2020,1,1),me(2020,3),D(2019,12,31),me(2020,3),{"paid_loss":1},m)])
ri=Triangle.from_dict(ti.to_dict()); print(type(ri.cells[0]).__name__, ri.cells[0].prev_evaluation_date)
# risk_basis None
t=Triangle([CumulativeCell(D(2020,1,1),me(2020,3),me(2020,3),{"paid_loss":1},Metadata(risk_basis=None))])
try: print("rb None ->", bermuda.json_string_to_triangle(t.to_json()).cells[0].metadata.risk_basis)
except Exception as e: print("ERR", e)
