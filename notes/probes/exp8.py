import datetime as dt, warnings, calendar, random
warnings.simplefilter("ignore")
import numpy as np
from bermuda import Triangle, CumulativeCell, IncrementalCell, Cell, Metadata
from bermuda.errors import TriangleError
D=dt.date
def me(y,m): return D(y,m,calendar.monthrange(y,m)[1])
def exact(a,b):
    if len(a)!=len(b): return "len"
    for x,y in zip(a,b):
        if x.coordinates!=y.coordinates: return ("coords",x.coordinates,y.coordinates)
        if x.metadata!=y.metadata: return "meta"
        if set(x.values)!=set(y.values): return "keys"
        for k in x.values:
            u,v=x.values[k],y.values[k]
            if isinstance(u,np.ndarray)!=isinstance(v,np.ndarray): return ("kind",k)
            if isinstance(u,np.ndarray):
                if u.dtype!=v.dtype or u.shape!=v.shape or not np.array_equal(u,v): return ("arr",k,u,v)
            elif type(u)!=type(v) or u!=v: return ("val",k,u,v)
    return True
rnd=random.Random(5)
def gen(rnd):
    metas=[Metadata(details={"s":i}) for i in range(rnd.randint(1,3))]
    cells=[]
    for m in metas:
        for p in range(rnd.randint(1,4)):
            ps=D(2020,1,1)+dt.timedelta(days=rnd.randint(0,400)); pe=ps+dt.timedelta(days=rnd.randint(0,100))
            evs=sorted(rnd.sample(range(0,500),rnd.randint(1,4)))
            kind=rnd.choice(["int","float","iarr","farr"])
            for e in evs:
                ev=ps+dt.timedelta(days=e)
                def v():
                    if kind=="int": return rnd.randint(0,1000)
                    if kind=="float": return rnd.randint(0,8000)/8
                    if kind=="iarr": return np.array([rnd.randint(0,100) for _ in range(3)])
                    return np.array([rnd.randint(0,800)/8 for _ in range(3)])
                cells.append(CumulativeCell(ps,pe,ev,{"paid_loss":v(),"earned_premium":v()},m))
    return Triangle(cells)
bad=0
for it in range(300):
    t=gen(rnd)
    # skip dup coords
    keys=[(c.metadata,c.coordinates) for c in t]
    if len(set(keys))!=len(keys): continue
    inc=t.to_incremental()
    back=inc.to_cumulative()
    r=exact(t.cells,back.cells)
    if r is not True: bad+=1; print("roundtrip",r)
    r2=exact(inc.cells, back.to_incremental().cells)
    if r2 is not True: bad+=1; print("rt2",r2)
    if len(inc)!=len(t): print("len")
    # check structure
    for (k,row) in t.slice_period_rows:
        irow=[c for c in inc if c.metadata==k[0] and c.period==k[1]]
        prev=k[1][0]-dt.timedelta(days=1)
        for c,ic in zip(row,irow):
            if ic.prev_evaluation_date!=prev or ic.evaluation_date!=c.evaluation_date: bad+=1; print("prev wrong")
            prev=c.evaluation_date
    if inc.to_incremental() is not inc and exact(inc.to_incremental().cells,inc.cells) is not True: print("idem")
    # broken chain
    if len(inc)>1:
        i=rnd.randrange(len(inc)); broken=Triangle([c for j,c in enumerate(inc.cells) if j!=i])
        # removing a non-last cell of a row should raise
        row=[c for c in inc if c.metadata==inc.cells[i].metadata and c.period==inc.cells[i].period]
        is_last = row[-1] is inc.cells[i] or row[-1]==inc.cells[i]
        try:
            broken.to_cumulative(); raised=False
        except TriangleError: raised=True
        except Exception as e: raised=repr(e)
        if not is_last and raised is not True: bad+=1; print("broken chain not refused", raised)
print("bad",bad)
# empty triangle
try: print(Triangle([]).to_incremental())
except Exception as e: print("empty to_incremental:",type(e).__name__)
