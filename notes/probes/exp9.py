import datetime as dt, warnings, calendar, random, collections
warnings.simplefilter("ignore")
import numpy as np
from bermuda import Triangle, CumulativeCell, IncrementalCell, Cell, Metadata
from bermuda.errors import TriangleError
D=dt.date
def me(y,m): return D(y,m,calendar.monthrange(y,m)[1])
def mid(i): return (2015+i//12, i%12+1)
def mstart(i): y,m=mid(i); return D(y,m,1)
def mend(i): y,m=mid(i); return me(y,m)
rnd=random.Random(7)
def gen(rnd):
    res=rnd.choice([1,3,6,12]); start=rnd.randrange(0,24)
    start -= start%res if rnd.random()<0.7 else 0
    nper=rnd.randint(1,6); evres=rnd.choice([1,3,6,12])
    metas=[Metadata(details={"s":i}) for i in range(rnd.randint(1,3))]
    cells=[]
    for m in metas:
        for p in range(nper):
            if rnd.random()<0.15: continue
            ps=start+p*res; pe=ps+res-1
            nev=rnd.randint(1,5)
            for j in range(nev):
                if rnd.random()<0.1: continue
                cells.append(CumulativeCell(mstart(ps),mend(pe),mend(pe+j*evres),{"paid_loss":rnd.randint(0,1000),"earned_premium":rnd.randint(0,80)/8},m))
    return Triangle(cells)
def oracle(t,pres,porigin):
    # windows: consecutive windows of pres months starting day after origin
    o=porigin
    out=collections.defaultdict(lambda: collections.defaultdict(float))
    for c in t:
        # find window index k: start = (o+1day) + k*pres months
        oid=(o.year-2015)*12+o.month-1  # origin is month end: window starts at month oid+1
        k=( ( (c.period_start.year-2015)*12+c.period_start.month-1) - (oid+1))//pres
        ws=oid+1+k*pres; we=ws+pres-1
        if c.period_end>mend(we): return None
        for f,v in c.values.items():
            out[(c.metadata,mstart(ws),mend(we),c.evaluation_date)][f]+=v
    return out
bad=0; n=0; errs=0
for it in range(400):
    t=gen(rnd)
    if len(t)==0: continue
    pres=rnd.choice([1,3,6,12]); oi=rnd.randrange(-12,80); po=mend(oi)
    exp=oracle(t,pres,po)
    try:
        a=t.aggregate(period_resolution=(pres,"month"),period_origin=po)
        got={(c.metadata,c.period_start,c.period_end,c.evaluation_date):dict(c.values) for c in a}
        if exp is None: bad+=1; print("expected error, got result", pres, po); continue
        if len(got)!=len(a): print("dup coords")
        if set(got)!=set(exp): bad+=1; print("coord mismatch",pres,po,len(got),len(exp)); continue
        for k in got:
            for f in got[k]:
                if got[k][f]!=exp[k][f]: bad+=1; print("value mismatch"); break
        n+=1
    except TriangleError as e:
        errs+=1
        if exp is not None: bad+=1; print("unexpected TriangleError",pres,po)
    except Exception as e:
        bad+=1; print("EXC",type(e).__name__,e,pres,po)
print("ok",n,"errs",errs,"bad",bad)
