"""Reading-phase probe: a decoder written only from the layout comment in
bermuda/io/binary_output.py, compared with Triangle.from_binary on the shipped files."""
import struct, sys, datetime, math, warnings
warnings.simplefilter("ignore")
import numpy as np

def decode(b):
    pos = 0
    def take(n):
        nonlocal pos
        if pos + n > len(b): raise EOFError
        r = b[pos:pos+n]; pos += n; return r
    assert take(4) == bytes([0xAF, 0x36, 0x01, 0x00]); assert take(1) == b"\x01"
    def rstr():
        (n,) = struct.unpack("<h", take(2))
        return None if n == -1 else take(n).decode("utf-8")
    def rdate():
        y, m, d = struct.unpack("<hBB", take(4)); return datetime.date(y, m, d)
    (npool,) = struct.unpack("<H", take(2)); pool = [rstr() for _ in range(npool)]
    def rval():
        t = take(1)[0]
        if t == 0x80: return rstr()
        if t == 0x81: return struct.unpack("<q", take(8))[0]
        if t == 0x82: return struct.unpack("<d", take(8))[0]
        if t == 0x83: return bool(take(1)[0])
        if t == 0x84: return None
        if t == 0x85: return rdate()
        if t in (0x86, 0x87):
            nd = take(1)[0]; dims = [struct.unpack("<L", take(4))[0] for _ in range(nd)]
            n = 1
            for d in dims: n *= d
            return np.frombuffer(take(8*n), "<i8" if t == 0x86 else "<f8").reshape(dims)
        raise ValueError(hex(t))
    def rdict():
        d = {}
        while b[pos] != 0x88:
            (i,) = struct.unpack("<H", take(2)); d[pool[i]] = rval()
        take(1); return d
    cells = []; meta = None
    while pos < len(b):
        m = take(1)[0]
        if m == 0x10:
            s = [rstr() for _ in range(5)]; (lim,) = struct.unpack("<d", take(8))
            meta = (*s, None if math.isnan(lim) else lim, rdict(), rdict())
        elif m in (0x11, 0x12, 0x13):
            ps, pe, ev = rdate(), rdate(), rdate(); vals = rdict()
            prev = rdate() if m == 0x13 else None
            cells.append((m, ps, pe, ev, prev, vals, meta))
        else: raise ValueError(hex(m))
    return pool, cells

if __name__ == "__main__":
    from bermuda import Triangle
    from bermuda.base import IncrementalCell, CumulativeCell
    for f in sys.argv[1:]:
        pool, cells = decode(open(f, "rb").read())
        t = Triangle.from_binary(f)
        ok = len(t) == len(cells)
        for c, (m, ps, pe, ev, prev, vals, meta) in zip(t.cells, cells):
            md = c.metadata
            ok &= (ps, pe, ev) == (c.period_start, c.period_end, c.evaluation_date)
            ok &= meta == (md.risk_basis, md.country, md.currency, md.reinsurance_basis, md.loss_definition, md.per_occurrence_limit, md.details, md.loss_details)
            ok &= list(vals) == list(c.values) and all(type(vals[k]) == type(c.values[k]) and np.array_equal(vals[k], c.values[k]) for k in vals)
            ok &= {0x11: "Cell", 0x12: "CumulativeCell", 0x13: "IncrementalCell"}[m] == type(c).__name__
        print(f, "cells", len(cells), "pool", pool, "sorted pool", pool == sorted(pool), "agree", bool(ok))
