#!/usr/bin/env python3
"""Generator-quality measurement for the correspondence tie: runs each property's harness (quick tier) under
coverage.py (branch mode) and reports, for the line ranges the property is ANCHORED in (properties.jsonl,
anchors.mechanism[].where), which executable lines and branch arcs of /repo the correspondence run never
reaches. A line the harness never executes is a line whose mutation the correspondence cannot see, so the
report is the work list for strengthening generators. Output: notes/coverage/<id>.json and
notes/coverage/SUMMARY.md. Not part of any registered check (it only measures).

usage: anchor_coverage.py [C01 C02 ...]   (default: all claimed)"""
import json
import os
import re
import subprocess
import sys
import tempfile
from concurrent.futures import ThreadPoolExecutor

ROOT = os.path.dirname(os.path.dirname(os.path.abspath(__file__)))
REPO = os.environ.get("VERIF_REPO", "/repo")
OUT = os.path.join(ROOT, "notes", "coverage")
PY = "/venv/bin/python"


def anchors(p):
    """{file: set(lines)} of the anchored ranges; a mechanism without line numbers anchors the whole file"""
    res = {}
    for m in p["anchors"]["mechanism"]:
        cur = None
        for part in re.split(r",\s*", m["where"]):
            mm = re.match(r"(?:(\S+\.py):)?([\d]+)(?:-(\d+))?$", part.strip())
            if not mm:
                continue
            if mm.group(1):
                cur = mm.group(1)
            if cur is None:
                continue
            a = int(mm.group(2))
            b = int(mm.group(3) or a)
            res.setdefault(cur, set()).update(range(a, b + 1))
    return res


def run_one(p):
    pid = p["id"]
    lid = pid.lower()
    tmp = tempfile.mkdtemp(prefix=f"cov_{lid}_")
    rc_file = os.path.join(tmp, "coveragerc")
    open(rc_file, "w").write(
        f"[run]\nbranch = True\nparallel = True\nconcurrency = multiprocessing,thread\nsource = {REPO}/bermuda\n"
        f"data_file = {tmp}/.coverage\n")
    env = dict(os.environ, VERIF_TIER="quick", BERMUDA_LEDGER_VERIF="1", PYTHONWARNINGS="ignore",
               PYTHONPATH=os.path.join(ROOT, "harness"), COVERAGE_RCFILE=rc_file, VERIF_NO_EVIDENCE="1")
    # evidence files are rewritten by the run; keep the registered ones untouched by working on a copy
    keep = os.path.join(ROOT, "evidence", f"{pid}.json")
    saved = open(keep).read() if os.path.exists(keep) else None
    try:
        pr = subprocess.run([PY, "-m", "coverage", "run", f"--rcfile={rc_file}", os.path.join(ROOT, "harness", f"{lid}.py"),
                             pid, "quick"], cwd=ROOT, env=env, capture_output=True, text=True, timeout=3600)
        subprocess.run([PY, "-m", "coverage", "combine", f"--rcfile={rc_file}"], cwd=tmp, env=env, capture_output=True)
        js = os.path.join(tmp, "cov.json")
        subprocess.run([PY, "-m", "coverage", "json", f"--rcfile={rc_file}", "-o", js], cwd=tmp, env=env,
                       capture_output=True)
        cov = json.load(open(js))["files"] if os.path.exists(js) else {}
    finally:
        if saved is not None:
            open(keep, "w").write(saved)
    rep = {"property": pid, "exit": pr.returncode, "tail": pr.stdout.strip().splitlines()[-1:], "files": {}}
    tot_exec = tot_miss = 0
    for f, lines in sorted(anchors(p).items()):
        key = next((k for k in cov if k.endswith(f)), None)
        if key is None:
            rep["files"][f] = {"error": "not measured"}
            continue
        c = cov[key]
        executed, missing = set(c["executed_lines"]), set(c["missing_lines"])
        stmts = (executed | missing) & lines
        miss = sorted(missing & lines)
        mb = sorted([a, b] for a, b in c.get("missing_branches", []) if a in lines)
        tot_exec += len(stmts)
        tot_miss += len(miss)
        rep["files"][f] = {"anchored_statements": len(stmts), "missing_lines": miss, "missing_branches": mb}
    rep["anchored_statements"] = tot_exec
    rep["missing"] = tot_miss
    os.makedirs(OUT, exist_ok=True)
    json.dump(rep, open(os.path.join(OUT, f"{pid}.json"), "w"), indent=1)
    subprocess.run(["rm", "-rf", tmp])
    return rep


def main():
    props = [json.loads(l) for l in open(os.path.join(ROOT, "properties.jsonl"))]
    want = set(sys.argv[1:])
    props = [p for p in props if not want or p["id"] in want]
    with ThreadPoolExecutor(4) as ex:
        reps = list(ex.map(run_one, props))
    old = {}
    sp = os.path.join(OUT, "summary.json")
    if os.path.exists(sp):
        old = json.load(open(sp))
    for r in reps:
        old[r["property"]] = r
    json.dump(old, open(sp, "w"), indent=1)
    lines = ["| id | anchored statements | never executed by the quick correspondence | branch arcs never taken | where |",
             "|---|---|---|---|---|"]
    for pid in sorted(old):
        r = old[pid]
        where = "; ".join(f"{f}: {v.get('missing_lines')}" for f, v in r["files"].items() if v.get("missing_lines"))
        nb = sum(len(v.get("missing_branches", [])) for v in r["files"].values())
        lines.append(f"| {pid} | {r['anchored_statements']} | {r['missing']} | {nb} | {where[:300]} |")
    open(os.path.join(OUT, "SUMMARY.md"), "w").write("\n".join(lines) + "\n")
    print("\n".join(lines))


if __name__ == "__main__":
    main()
