#!/usr/bin/env python3
"""False-alarm test: behaviour-preserving refactorings of /repo (benign/<name>/patch.diff, produced by an
independent sub-agent) must leave EVERY check silent (exit 0). Runs in an isolated copy (scratch worktree of
/repo + private copy of /verif), several checks in parallel. Results: benign/RESULTS.json."""
import json, os, shutil, subprocess, sys, time
from concurrent.futures import ThreadPoolExecutor

ROOT = os.path.dirname(os.path.dirname(os.path.abspath(__file__)))
BEN = os.path.join(ROOT, "benign")
repo, verif = "/tmp/benign_repo", "/tmp/benign_verif"


def sh(cmd, **k):
    p = subprocess.run(cmd, capture_output=True, text=True, **k)
    return p.returncode, p.stdout + p.stderr


def main():
    args = [a for a in sys.argv[1:] if not a.startswith("--")]
    only = [a.split("=", 1)[1].split(",") for a in sys.argv[1:] if a.startswith("--checks=")]
    skip = [a.split("=", 1)[1].split(",") for a in sys.argv[1:] if a.startswith("--skip=")]
    names = args or sorted(d for d in os.listdir(BEN) if os.path.isdir(os.path.join(BEN, d)))
    ids = [c["property_id"] for c in json.load(open(os.path.join(ROOT, "MANIFEST.json")))["checks"]]
    if only:
        ids = [i for i in ids if i in only[0]]
    if skip:
        ids = [i for i in ids if i not in skip[0]]
    results = {}
    rp = os.path.join(BEN, "RESULTS.json")
    if os.path.exists(rp):
        results = json.load(open(rp))
    sh(["git", "-C", "/repo", "worktree", "remove", "--force", repo])
    rc, out = sh(["git", "-C", "/repo", "worktree", "add", "--detach", repo, "HEAD"])
    assert rc == 0, out
    sh(["rsync", "-a", "--delete", "--exclude", ".git", "--exclude", "replays", ROOT + "/", verif + "/"])
    try:
        for name in names:
            rc, out = sh(["git", "-C", repo, "apply", os.path.join(BEN, name, "patch.diff")])
            if rc != 0:
                results[name] = {"error": "patch does not apply " + out[-200:]}
                print(name, "PATCH DOES NOT APPLY")
                continue
            try:
                def run(p):
                    env = dict(os.environ, VERIF_REPO=repo, VERIF_SEED="0")
                    t0 = time.time()
                    rc, out = sh([os.path.join(verif, "check"), p, "quick"], cwd=verif, env=env, timeout=3000)
                    vio = [l for l in out.splitlines() if l.startswith("VIOLATION")]
                    return p, {"exit": rc, "violation_line": vio[0] if vio else None, "wall_s": round(time.time() - t0, 1),
                               "tail": out.strip().splitlines()[-1:]}
                with ThreadPoolExecutor(6) as ex:
                    res = dict(ex.map(run, ids))
                alarms = [p for p, r in res.items() if r["exit"] != 0]
                prev = results.get(name, {}).get("checks", {}) if (only or skip) else {}
                prev.update(res)
                alarms = [p for p, r in prev.items() if r["exit"] != 0]
                results[name] = {"checks": prev, "alarms": alarms}
                print(f"{name:6s} alarms={alarms or 'none'}")
            finally:
                sh(["git", "-C", repo, "checkout", "--", "."])
    finally:
        sh(["git", "-C", "/repo", "worktree", "remove", "--force", repo])
        shutil.rmtree(verif, ignore_errors=True)
    json.dump(results, open(rp, "w"), indent=1)


if __name__ == "__main__":
    main()
