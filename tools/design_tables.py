#!/usr/bin/env python3
"""Rewrites the generated parts of DESIGN.md (between <!-- BEGIN x --> / <!-- END x --> markers):
 status  : per-property level, theorem counts, open statements, correspondence size (from evidence/*.json)
 seeded  : which check catches which seeded change (from seeded/RESULTS.json)
 benign  : false-alarm test on behaviour-preserving refactorings (from benign/RESULTS.json)"""
import json, os, re
ROOT = os.path.dirname(os.path.dirname(os.path.abspath(__file__)))


def status():
    man = {c["property_id"]: c for c in json.load(open(os.path.join(ROOT, "MANIFEST.json")))["checks"]}
    rows = ["| id | level claimed | theorems (kernel-checked) | OPEN statements | quick: cases / distinct | wall s |", "|---|---|---|---|---|---|"]
    for i in sorted(man):
        p = os.path.join(ROOT, "evidence", f"{i}.json")
        if not os.path.exists(p):
            rows.append(f"| {i} | {man[i]['level_claimed']['category']} | - | - | - | - |"); continue
        e = json.load(open(p)); c = e["coverage"]
        opens = ", ".join(c.get("open_statements") or []) or "none"
        rows.append(f"| {i} | {man[i]['level_claimed']['category']} | {len(c.get('theorems', []))} | {opens} | "
                    f"{c.get('evaluations')} / {c.get('distinct_nontrivial')} ({e['tier']}) | {e['wall_s']} |")
    return "\n".join(rows)


def seeded():
    p = os.path.join(ROOT, "seeded", "RESULTS.json")
    if not os.path.exists(p):
        return "(no results yet)"
    res = json.load(open(p))
    rows = ["| seeded change | property | what it needs to manifest | result |", "|---|---|---|---|"]
    caught = missed = 0
    for name in sorted(res):
        r = res[name]
        mp = os.path.join(ROOT, "seeded", name, "meta.json")
        if not os.path.exists(mp) or "checks" not in r:
            continue
        meta = json.load(open(mp))
        outs = []
        for pr, c in r["checks"].items():
            if c["exit"] == 1 and c["violation_line"]:
                outs.append(f"{pr}: caught" + (" (no-failing-input-found)" if "no-failing-input-found" in c["violation_line"] else ""))
            elif c["exit"] == 0:
                outs.append(f"{pr}: MISSED")
            else:
                outs.append(f"{pr}: error {c['exit']}")
        main = r["checks"].get(r["property"], {})
        if main.get("exit") == 1:
            caught += 1
        else:
            missed += 1
        needs = (meta.get("needs") or meta.get("summary") or "").replace("|", "/").replace("\n", " ")
        needs = needs[:150] + ("…" if len(needs) > 150 else "")
        rows.append(f"| {name} | {r['property']} | {needs} | {'; '.join(outs)} |")
    rows.append("")
    rows.append(f"Totals: {caught} caught, {missed} missed by the check of the property they were seeded against (last run of each).")
    return "\n".join(rows)


def benign():
    p = os.path.join(ROOT, "benign", "RESULTS.json")
    if not os.path.exists(p):
        return "(no results yet)"
    res = json.load(open(p))
    rows = ["| refactoring | area | checks raising an alarm (should be none) |", "|---|---|---|"]
    for name in sorted(res, key=lambda n: int(re.sub(r"\D", "", n) or 0)):
        meta = json.load(open(os.path.join(ROOT, "benign", name, "meta.json")))
        r = res[name]
        al = r.get("alarms")
        rows.append(f"| {name} | {meta.get('area','')[:90]} | {', '.join(al) if al else 'none'} |")
    return "\n".join(rows)


def main():
    path = os.path.join(ROOT, "DESIGN.md")
    s = open(path).read()
    for key, fn in (("status", status), ("seeded", seeded), ("benign", benign)):
        b, e = f"<!-- BEGIN {key} -->", f"<!-- END {key} -->"
        if b in s and e in s:
            s = s[:s.index(b) + len(b)] + "\n" + fn() + "\n" + s[s.index(e):]
    open(path, "w").write(s)


if __name__ == "__main__":
    main()
