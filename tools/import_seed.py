#!/usr/bin/env python3
"""Confirm a breaking change produced by a mutation sub-agent and keep it under seeded/<name>/.
usage: import_seed.py <agent_out_dir> <i> <name>
Confirms in a scratch worktree of /repo: patch applies; existing suite has exactly the baseline
failures; demo exits 1 with the change and 0 without. Removes the worktree afterwards."""
import json, os, shutil, subprocess, sys

out, i, name = sys.argv[1], sys.argv[2], sys.argv[3]
WT = f"/tmp/confirm_{name}"
BASE_FAIL = {"test_plot_drip", "test_plot_drip_with_predictions", "test_plot_hose"}


def sh(cmd, **k):
    p = subprocess.run(cmd, capture_output=True, text=True, **k)
    return p.returncode, p.stdout + p.stderr


sh(["git", "-C", "/repo", "worktree", "remove", "--force", WT])
rc, o = sh(["git", "-C", "/repo", "worktree", "add", "--detach", WT, "HEAD"])
assert rc == 0, o
try:
    env = dict(os.environ, PYTHONPATH=WT)
    diff, demo = os.path.join(out, f"change{i}.diff"), os.path.join(out, f"demo{i}.py")
    meta = json.load(open(os.path.join(out, f"meta{i}.json")))
    rc0, _ = sh(["/venv/bin/python", demo], cwd=WT, env=env, timeout=900)
    rc, o = sh(["git", "-C", WT, "apply", diff])
    assert rc == 0, "patch does not apply: " + o
    rc1, demo_out = sh(["/venv/bin/python", demo], cwd=WT, env=env, timeout=900)
    rc, o = sh(["/venv/bin/python", "-m", "pytest", "-q", "-p", "no:cacheprovider", "-n", "8",
                "--deselect", "test/io_test.py::test_trib_triangle_value_io"], cwd=WT, env=env, timeout=1800)
    failed = {l.split("::")[1].split(" ")[0] for l in o.splitlines() if l.startswith("FAILED")}
    errors = [l for l in o.splitlines() if l.startswith("ERROR")]
    ok = rc0 == 0 and rc1 == 1 and failed == BASE_FAIL and not errors
    print(f"{name}: demo without={rc0} with={rc1} suite_failed={sorted(failed)} errors={len(errors)} -> {'CONFIRMED' if ok else 'REJECTED'}")
    if ok:
        d = os.path.join(os.path.dirname(os.path.dirname(os.path.abspath(__file__))), "seeded", name)
        os.makedirs(d, exist_ok=True)
        shutil.copy(diff, os.path.join(d, "patch.diff"))
        shutil.copy(demo, os.path.join(d, "demo.py"))
        meta.update({"origin": "independent sub-agent given only the property text and a scratch worktree",
                     "confirmed": "patch applies to HEAD; existing suite: only the 3 baseline failures (flaky test_trib_triangle_value_io deselected); demo exit 1 with change, 0 without",
                     "demo_output_with_change": demo_out[-600:]})
        json.dump(meta, open(os.path.join(d, "meta.json"), "w"), indent=1)
finally:
    sh(["git", "-C", "/repo", "worktree", "remove", "--force", WT])
