#!/usr/bin/env python3
"""Regenerates MANIFEST.json from the claims table below (one entry per claimed property).
Properties without an entry are listed under not_applicable with the reason in PENDING."""
import json
import os

ROOT = os.path.dirname(os.path.dirname(os.path.abspath(__file__)))

COMMON_NOTE = ("Trusted base: Lean 4.33 kernel; axioms propext, Classical.choice, Quot.sound only (audited per theorem on "
               "every run, no sorry/native_decide/bv_decide/own axioms); CPython/numpy semantics of the constructs as "
               "modelled (DESIGN §4); harness/translate.py (tables regenerated from /repo each run); the correspondence "
               "harness (generator quality bounds what it sees; histogram in the evidence). ")

PV = "proof"
TV = "translation_validation"

CLAIMS = {
    "C01": dict(level=PV, ref="§7 C01, §12.1",
        text="74 kernel-checked theorems (39 in Properties/C01, 38 in Properties/C01Ext), none open, about a hand-written executable model of Metadata.__lt__, "
             "Cell.__lt__, IncrementalCell.__lt__, the Triangle constructor and the public operations: strict total "
             "order on canonical metadata, sortedness, permutation, input-order independence for EVERY permutation "
             "(ofCells_perm_invariant, ofCells_coords_perm_invariant), contiguity and order of slices, and closure of "
             "the canonical form (sorted, one cell class, every cell satisfies the constructor's date rules) under "
             "every chain of operations: run_canonical over ten basic operations, run2_canonical over 34 and "
             "run3_canonical over 59 modelled public operations (the 34 plus derive_fields / derive_metadata / replace / filter with "
             "FUNCTION arguments - proved for every callable, the expression language only feeds the correspondence -, "
             "| & - ^, sum, t[i], loose_period_merge, shift_origin, drop_off_diagonals, TriangleSlice conversions, "
             "make_pred_triangle_with_init, weight_geometric_decay, the Berquist-Sherman adjustments, disaggregate_development, "
             "disaggregate, and the wide / long / array-frame / Matrix reader-after-writer composites; fromWideRows_canonical etc.: "
             "EVERY accepted table yields a canonical triangle), and run4_canonical over 69 (adding the statics / full array-frame / "
             "array_triangle_builder readers, the rich-matrix and triangle_to_matrix-with-options round trips, __getitem__ with any index "
             "object on Triangle and TriangleSlice, make_pred_triangle(_complement), and the BINARY round trip through a Cell<->RawCell "
             "bridge with an exact IEEE-754 encoder: fromBinary_canonical holds for every byte string the reader accepts) - the 34 being (to_incremental, to_cumulative, aggregate, summarize, merge, coalesce, "
             "add_statics, period_merge, make_right_triangle, make_right_diagonal, fill_forward_gaps, backfill, full "
             "clip, 3-index getitem, split, slices, convert_currency, disaggregate_experience, "
             "accident_quarter_to_policy_year, blend, thin, bootstrap, moment_match, JSON round trip, ...), by "
             "induction over the op list. Tied to /repo each run by probed attribute-order tables (theorem "
             "tables_order over regenerated definitions) and by a differential correspondence: constructor under "
             "permutations x list/tuple/generator, sorted(metadata) and the < matrix, random chains over the modelled "
             "operations compared with the compiled model, and the Lean Spec predicate evaluated on the "
             "implementation's output after each step of chains over ~30 public operations (incl. inputs outside the "
             "models' domains: duplicate coordinates, Err.other cases).",
        note=COMMON_NOTE + "Operations without a Triangle->Triangle model (derive_fields/derive_metadata/replace with "
             "function arguments, frame/CSV/binary readers) are covered by the Spec predicate on implementation "
             "outputs only."
             " Audit follow-up: closure over 69 modelled operations (Op 10 + Op2 24 + Op3 25 + Op4 10; run4_canonical, with run4_slices_contiguous / run4_slice_order: contiguity and slice order are re-established for every chain result modulo Python's == on metadata). The isCanonical verdict evaluated on implementation dumps is EQUIVALENT to the proposition (isCanonical_iff); a true sliceOrder verdict IMPLIES slice order and contiguity (sliceOrder_sound, contiguous_of_sliceOrder; converse sliceOrder_of_canonical under canonical metadata). The closure theorems assume that the chain returns and that operands contributing cells are themselves canonical triangles (argsCanonical); ofCells_perm_invariant needs cells sharing a coordinate to be identical (with duplicate coordinates the coordinate sequence is still order-independent: ofCells_coords_perm_invariant, canonical metadata). Order laws of Metadata.__lt__ are claimed where the code has an order: metadata whose shared detail / loss-detail keys carry values of one kind (bool/int/float one kind, None its own); there Python's < equals the model's comparison and raises TypeError only outside (Metadata.cmp?, metadata_cmpPy_eq, metadata_cmpPy_error, metadata_ltPy_trichotomous for canonical metadata; checked pair by pair in stream ii-b). The constructor's TypeError for incomparable detail values is not modelled (which pairs Timsort compares depends on input order): constructor theorems are claimed for pairwise comparable cell lists (ofCells_ok_iff_comparable records that domain as a hypothesis: a scoping statement, not a proof that sorted() cannot raise). Where a model answers Err.other (tabular row domain, ndarray arithmetic inside Fn.Ex, inf/nan, make_pred_triangle resolutions <= 0, disaggregate_experience on incremental triangles) the closure theorem is silent and the chain is counted as outside-model. Spec-only: chain-ladder round trip (external package), convert_to_dollars, S3 paths; the iterable type (list / tuple / generator) is correspondence only. The earlier sentence that function-argument operations and readers are Spec-only is superseded: they are under run4_canonical.",
        tech="Lean 4 proof (order laws by compareLex structure, uniqueness of stable sort, induction over op lists) + "
             "probed tables + differential correspondence with compiled Lean model"),
    "C02": dict(level=PV, ref="§7 C02",
        text="55 kernel-checked theorems, none open: characterisation of == (triEq_iff: same length and positionwise "
             "cellEq; cellEq_iff: period, dates, prev, metadata, key set, np.array_equal values, Cell/CumulativeCell "
             "interchangeable), reflexive/symmetric/transitive, one 'single edit makes it False' theorem per edit kind "
             "(drop/append trailing cell, each date, value, field name, metadata attribute) with the re-sort by the "
             "constructor taken into account, hash keys respect equality for Metadata, Cell and Triangle "
             "(tables_hash ties the hashed attribute lists to the regenerated tables), and mem/le/inter/diff/isdisjoint "
             "specifications in terms of cellEq. Correspondence: truth tables of ==, hash equality, in, <=, &, -, "
             "isdisjoint for permuted / re-typed / serialisation-round-tripped copies, EVERY proper prefix, every "
             "one-cell extension, every single-edit variant, and all pairs (transitivity through the matrix) of the "
             "sub-triangles of a small cell universe in both bases; the Lean Spec judges the implementation's answers.",
        note=COMMON_NOTE + "NaN-free data; 0-d arrays excluded from hash clauses (tuple(v) fails); builtin hash() is "
             "trusted to respect == on int/float/str/date/tuple/frozenset."
             " Audit follow-up: triEq_iff_contents states the headline 'exactly when' clause as one iff; spec_cellHash / spec_metaEq / spec_metaHash bridge the remaining Spec clauses; equal cells are hashable together with the same key (hashKey_ok_of_cellEq, hashable_iff_of_cellEq) EXCEPT when one holds a 0-d array where the other holds the scalar (== holds, hash raises for the 0-d array: kernel-checked example). Domain: triangles of one basis; a plain Cell compared with an IncrementalCell of identical content raises AttributeError (modelled, outside the property)."
             " Claim check (hypotheses the sentences above omit): cellEq_iff holds under the constructor's date rules and key-sorted detail dicts on both cells (the hypothesis-free form is cellEq_iff_code; triEq_iff has no hypotheses); transitivity needs the date rules on all three operands; the hash-together theorems need NO 0-d array value on either side (Dict.noZeroD) and the date rules; inter_spec / diff_spec need an operand of one cell class (kindsConsistent); tables_hash compares the probed hash-dependency table (which single-component changes move hash()) with the components the model's hash keys contain.",
        tech="Lean 4 proof (iff characterisation, counting argument for edits) + probed hash tables + truth-table "
             "correspondence"),
    "C03": dict(level=PV, ref="§7 C03, §12.6",
        text="PARTIAL (the theorem is about the IR program the translator emits from /repo's AST on every run; that the IR over-approximates "
             "the Python function - desugaring, the library-call summary tables, pure callbacks, honoured annotations - is trusted and "
             "listed in full in the evidence; aliasing inside numpy/pandas/altair and cached_property slots are not modelled). 64 "
             "kernel-checked theorems (+10 in generated files), none open. (1) HeapIR: a small imperative IR for the heap effects of a "
             "Python function body (alloc / bind / load / store / augmented assignment in place on containers / mutating method calls / "
             "calls through computed summaries / loops and branches driven by an oracle), an executable total semantics on the heap model, "
             "and a decidable static discipline (abstract interpretation: every store, in-place update or mutating call targets an object "
             "allocated in this call, or the object of an UNPROTECTED data-frame parameter). frame_protected (objects handed to unprotected parameters live in the entry heap) / frame_of_discipline (no unprotected parameter) prove ONCE "
             "that a disciplined function leaves every location allocated before the call - except the objects handed to unprotected "
             "parameters - unchanged, for all heaps, arguments, oracle choices, call depths, whether it returns or raises; "
             "frame_protected_reachable: with `separated` (protected and unprotected arguments not aliased at entry, checked by object "
             "identity on every harness call that receives a data frame) everything reachable from the Triangle / Cell / Metadata "
             "arguments; frame_chain_ir: every position in a chain. harness/translate_c03ir.py translates ALL of bermuda/**/*.py "
             "(464 functions, none untranslated; 461 disciplined, the other 3 are mutators by contract - Matrix.__setitem__, "
             "_BodyRawIO.readinto, _open_s3_stream - excluded by name: mutators_excluded) and Lean re-proves all_disciplined by "
             "decide +kernel over the regenerated program on every run. frame_registry_entry_points covers ALL 178 operations of the "
             "harness registry (registryOps regenerated from harness/c03.py; registry_all_covered is rfl on the generated list of uncovered operations, i.e. the translator's own verdict; the theorem speaks about the entry functions the table ENTRY_POINTS names). Negative controls by decide +kernel "
             "(total = values[0]; total += v / values = cell.values; values[k] = v / .update on a parameter dict / mutated default list / "
             ".sort() on cells / a write through what a data frame holds into a Metadata's details) are rejected by the discipline AND "
             "shown to mutate concretely. (2) the earlier hand-written heap models of 17 helpers (5 accumulating + 12 cell-level; 16 parameterised by an AST-regenerated pattern) with AST-regenerated "
             "accumulator patterns (frame_<fn>, all_patterns_fresh). (3) Correspondence: the registry of 178 public operations x "
             "argument shapes (incl. mixed value kinds, >= 1000 samples) x chain positions, deep fingerprints (class, dates, metadata incl. "
             "dict order, key order, value type, dtype, shape, raw bytes) of every argument before and after each call whether it returned "
             "or raised, and a second run with every argument array read-only; a discipline failure starts a call-graph-seeded search "
             "for a concretely mutated argument.",
        note=COMMON_NOTE + "Trusted: harness/translate_c03ir.py (Python AST -> HeapIR) and its tables of library-call summaries, callbacks "
             "assumed pure, annotations honoured (two unannotated `resolution` parameters assumed tuple[int, str], checked on every call of "
             "the run), dict keys not tracked, caches not modelled. If a refactor makes the translator lose an entry function (unknown library "
             "call) the operation moves to registryUncovered, the evidence shows heapir/registry_ops_not_covered > 0 and the fingerprint "
             "correspondence remains; only a detected write through a protected reference breaks the build."
             " Audit follow-up: frame_protected_reachable and separated are stated over the transitive closure Heap.Reach (any depth) in an entry heap without dangling references; chains may create the data frame on the way (ChainOK: an object handed to an unprotected parameter must exist when the call that receives it starts; irChain_writer_reader_frame is the concrete witness). The registry has 178 operations (set operators, ==, hash, in, sum, int / 3-index __getitem__, TriangleSlice, make_pred_triangle, metadata helpers, all cached accessors read twice, triangle_json_load(s) added), all under registry_all_covered. Trusted in addition: the hand-written table ENTRY_POINTS (registry operation -> entry functions of program), cross-checked dynamically on every run by tracing (a row none of whose functions is entered is an infrastructure error). C03 has no Lean Spec predicate evaluated on the implementation's output: the oracle on the real code is a Python deep fingerprint compared before and after every call plus a rerun with read-only arrays. The first access of a cached_property / functools.cache writes a cache slot: cache slots are outside the IR model and the fingerprint (observable state is not written). 5 accumulating + 7 cell-level hand-written helper models are compared with the implementation through drv_c03; 5 cell-level models are tied to the source by their regenerated pattern only; all 17 are also in the HeapIR program.",
        tech="Lean 4 soundness theorem for a write discipline on an imperative IR + AST-to-IR translator re-run each check + decide over the "
             "regenerated program + fingerprint correspondence"),
    "C04": dict(level=PV, ref="§7 C04",
        text="14 kernel-checked theorems, none open, about the model of to_incremental / to_cumulative: toCum_toInc (exact round trip "
             "for every well-formed cumulative triangle: order, dates, metadata, key sets, values and value kinds (key ORDER is preserved in the model only: the implementation builds the dict from a Python set and the harness ignores key order); "
             "Cell becomes CumulativeCell), toInc_toCum (every complete incremental triangle), identity on the target "
             "basis, TriangleError on a broken chain (consistent incremental triangle with valid previous dates) and on a key mismatch between consecutive cells of a row in either direction (triangle otherwise well-formed), toInc_row_spec "
             "(for a WFcum triangle with distinct dict keys to_incremental succeeds and the lookup-based Bool predicate Spec.toIncRowSpec - one increment per evaluation date per row, linked to the preceding evaluation date, values = differences except earned_premium - holds of its result), toCum_row_spec, toInc_row_spec_of_success, roundTripCum_spec / roundTripInc_spec. Correspondence: "
             "dumps of both conversions incl. value kind and dtype, both round trips cell by cell on the "
             "implementation, Spec.toIncRowSpec (independent predecessor lookup) on its output, refusals for every "
             "one-link-removed / shifted variant.",
        note=COMMON_NOTE + "Hypothesis beyond the statement: each field keeps one kind/dtype/shape along a row (the "
             "quantifier's value classes satisfy it). Exactly representable values only."
             " Audit follow-up: both key-mismatch refusals have kernel-checked witnesses (examples on the defs exTbadKeys, exUbadKeys); rowKey_eq_iff_python_key: on wire-form metadata the model's row key is Python's (period, metadata) grouping key. Declared: Spec.toCumRowSpec is evaluated on the implementation's output but has no bridge theorem on the model; toInc_row_spec assumes one value kind per field along a row (stronger than 'rows keep one field set'; needed for the exact round trip: a row going from array to scalar does not come back equal)."
             " Final round (supersedes the 'declared' sentences above): toCum_row_spec (for a complete incremental triangle toCumulative succeeds and Spec.toCumRowSpec holds of its result: the bridge for the clause the driver evaluates on the implementation's to_cumulative output); toInc_row_spec_of_success (WHENEVER to_incremental returns, clauses 1-3 hold of the result with NO assumption on value kind, dtype or shape: canonical strict order, non-incremental cells with valid dates, one key set per row, distinct dict keys; success itself is proved under WFcum only; witness exMixed_toInc with an int, a float and a float64 array along one row); the strong toInc_row_spec is kept for the exact round trip.",
        tech="Lean 4 theorems over Q (telescoping by induction on rows, regrouping lemmas) + differential correspondence"),
    "C05": dict(level=PV, ref="§7 C05/C06/C19",
        text="17 kernel-checked theorems, none open, about a byte-level codec model (bit view: ints with Int64 range, "
             "floats and array payloads as raw bytes, insertion-ordered details): per-class read_write lemmas "
             "(date, optString, limit, array, value, dict, metadata, cell, pool, records), pool_index_never_dict_end "
             "(no key of the padded pool gets an index whose low byte is DICT_END - the D6 repair, proved), "
             "decode_encode : WF t -> decode (encode t) = ok t for any number of keys up to the format's limits, "
             "decode_encode_empty, roundtrip_compressed (gzip a parameter), inferCompress_spec. All tags/magic/version "
             "come from the table regenerated from /repo each run. Correspondence byte-exact in both directions: "
             "to_binary bytes = Model.encode bytes; Model.decode of the Python file = input; from_binary of "
             "Model.encode output = input (class, scalar kind, dtype, shape, raw bytes); .trib/.tribc, explicit and "
             "inferred compression, empty triangle, non-ASCII, 0-400 keys.",
        note=COMMON_NOTE + "gzip and UTF-8 are trusted library layers. Domain: metadata that Python's == identifies "
             "share one representation (1 vs 1.0 vs True, dict order); int limit reads back as float; numpy scalar "
             "types read back as Python scalars; NaN limit is the format's encoding of None."
             " Audit follow-up: decode_encodePy_firstRepr : WF t -> decode (encodePy t) = ok (firstRepr t) holds for EVERY triangle of the domain (no coherence hypothesis: metadata that Python's == identifies come back in the first cell's representation) and is the read-back oracle of the md-repr stream; fromBinary_encode / fromBinary_encodePy carry the round trip through the final Triangle(cells); roundtrip_compressed_py for the writer as written. Generated triangles hold no NaN among detail values / limits (byte-exact comparison only; the theorem itself has no such restriction)."
             " Claim check: pool_index_never_dict_end quantifies over the keys USED by the triangle (k in allKeys t: found in the padded pool at an index j with j % 256 != DICT_END); roundtrip_compressed assumes the reader infers the written flavour (inferCompress ext flag = ok c); fromBinary_encode / fromBinary_encodePy assume that the numeric view of t (resp. firstRepr t) exists and is canonical (C01.Canonical: sorted, one class, date rules); roundtrip_compressed_py is for COHERENT triangles (the file-level statement for non-coherent triangles follows from decode_encodePy_firstRepr but is not stated).",
        tech="Lean 4 proof (parser/printer round trip by per-class lemmas and induction over records) + regenerated "
             "constants + byte-exact bidirectional correspondence"),
    "C06": dict(level=PV, ref="§7 C05/C06/C19",
        text="15 kernel-checked theorems, none open: encode_layout_v1 (magic, version and tag values equal the literal v1 constants), encode_formats_v1 and "
             "formats_per_function_v1 (every struct format string of writer and reader, and which function uses which, equal the v1 "
             "formats - decide over the regenerated tables, so a symmetric writer+reader edit that no round trip can see breaks it), "
             "kernel-checked literal byte vectors and the four small shipped golden files (see the note), tags_distinct, "
             "dictEnd_not_value_tag, encode_header, pool_sorted, field_widths, little_endian, "
             "metadata_record_only_on_change, independent_codec_agrees, encode_perm_invariant (bytes independent of the "
             "order cells were supplied, via C01), decode_bad_magic_error, decode_bad_version_error. The Lean encoder is "
             "written from the layout comment (the independent codec). Correspondence adds the history: the five "
             "shipped .trib files decode (model and implementation) to dumps pinned under corpus/golden and re-encode "
             "byte-identically; 42 pinned generated files under corpus/pinned.",
        note=COMMON_NOTE + "Pinned dumps were recorded once from the verified tree."
             " Audit follow-up: the layout is pinned by kernel-checked LITERAL byte vectors written by to_binary of the verified tree (encode_exTriangle_bytes / encodePy_exTriangle_bytes / decode_exTriangle_bytes: 242 bytes with every value kind; plain-Cell and CumulativeCell pairs), by golden_meyers / golden_holey_init_tri / golden_missing_eval / golden_missing_cells (decode bytes = ok recordedCells and encode recordedCells = bytes, decide +kernel; c06.py checks on every run that the Lean literals are the sha-pinned shipped files), by formats_per_function_v1 (which function uses <h and which <H) and pool_content; encode_layout_v1 itself states magic, version and tags only. The decoder written only from the layout comment (notes/probes/independent_trib_decoder.py) runs inside c06.py on every generated file and on the history files. ragged_aq_triangle.trib (31 KB) stays in correspondence only."
             " Final round: Model/CodecLayout.lean defines decodeLayout STRICTLY from the layout comment (exact lengths, no peek, no silent short read, unknown marker or value tag is an error, no constructor rules - not a mirror of binary_input.py); decodeLayout_encode (wf t -> decodeLayout (encode t) = ok t) / decodeLayout_encodePy (the same for the writer as written, coherent triangles), decodeLayout_literals, decodeLayout_golden (the four shipped files), a kernel-checked strictness example (a trailing unknown marker is refused by decodeLayout and accepted by decode); Drv/C06 runs decodeLayout on every file the implementation writes.",
        tech="Lean 4 proof over regenerated format tables + independent encoder/decoder model + golden-file history"),
    "C19": dict(level=PV, ref="§7 C05/C06/C19",
        text="13 kernel-checked theorems, none open: ten per-class prefix lemmas (on a strict prefix of its encoding a "
             "reader fails or returns having consumed everything) and decode_prefix_safe : WF t -> for every "
             "n < length (encode t), decode (take n (encode t)) is an error or ok (take k t) - every crash point of "
             "every file, by induction over records. Correspondence: for each generated file EVERY byte offset: "
             "from_binary(file[:n]) vs Model.decode(bytes[:n]) and Spec.prefixSafe on the implementation's answer; "
             "compressed files: every truncation must raise.",
        note=COMMON_NOTE + "gzip's behaviour on truncated input is library behaviour: enumerated at every offset, not "
             "proved. BufferedReader.peek/short-read semantics as modelled."
             " Audit follow-up: decode_prefix_safe_py (the writer as written, under coherent) and fromBinary_prefix_safe (what from_binary returns, including Triangle(cells): coherent triangles whose numeric view is a canonical cell list); compressed_prefix_refused states the compressed clause relative to two named library facts, 'a truncated (single-member) gzip stream is an error' and 'gzip output never begins with the .trib magic' (false for a multi-member writer, which is why the harness also cuts at every gzip member signature); the prefixes driver op reports wf / coherent / fileIsEncode / fileIsEncodePy and c19.py counts theorem instances (all files of a run). For non-coherent triangles prefix safety with (firstRepr t).take k is not proved; the all-offsets stream uses coherent triangles only."
             " Final round (supersedes the last sentence above): decode_prefix_safe_firstRepr / spec_prefixSafe_firstRepr - for EVERY well-formed triangle, coherent or not, each strict prefix of the file the writer really writes is refused or decodes to (firstRepr t).take k; the all-offsets stream now includes non-coherent triangles judged by that oracle, and every file of a run is a theorem instance (decode level; the Triangle(cells) step of from_binary is proved for coherent triangles).",
        tech="Lean 4 proof (prefix-safety of a parser by per-class lemmas + induction over records) + all-offsets "
             "correspondence"),
    "C07": dict(level=PV, ref="§7 C07",
        text="39 kernel-checked theorems, none open. Model of triangle_to_dict and of the decoder (object_hook applied bottom-up to every object, "
             "_parse_cell_set, _parse_observation) over a JSON AST. Proved: ISO date round trip for every valid date "
             "1000-9999, typed-kind lemmas, toDict_shape, toDict_shape_strict (ISO dates are exactly YYYY-MM-DD: dateIso_shape, strictIso_unique), spec_slicesOnce / spec_textSpec / spec_loadSpec (Spec bridges), roundtrip_every_route (string, handle, path, dict and the deprecated entry points), fromDict_plain (any AST of that shape, however produced, loads to the described triangle) and "
             "fromDict_toDict : WFjson t -> fromDict (toDict t) = ok (asTyped t) with no further hypotheses, concrete round trips, and witnesses that the stated domain restrictions "
             "are real (risk_basis None, a field named 'cells'); none open. Correspondence: every export "
             "route against the model's AST via a plain json parser, every import route (string, handle, path, dict) "
             "against model, original and each other incl. Python class/dtype/int-vs-float/None/sample order, JSON "
             "text printed by the Lean driver and by an independent serializer loaded by the implementation.",
        note=COMMON_NOTE + "json text layer and float repr round trip trusted (exercised with non-dyadic floats in a "
             "separate stream). Domain (WFjson): risk_basis not None; keys avoid the hook's trigger names; years >= 1000."
             " Audit follow-up, exact domain WFjson: risk_basis not None; field / detail keys avoid the hook's trigger names; detail values str/int/float/bool (no None detail values, no bool limit); scalars int/float/None; arrays 1-d int64/float64 and non-empty for int64 (rank-2 arrays and empty int64 arrays outside); metadata that == identifies appear in one representation (mdCoherent); years >= 1000; NaN, +-inf and -0.0 cannot be expressed in the model (generated separately, compared on the implementation only). Witnesses ex_empty_int64_array, ex_bool_limit, ex_none_detail_value, ex_rank2_flat_in_model, ex_mdCoherent; non-vacuity ex2_wf / ex2_roundtrip (2 slices, 5 cells)."
             " Claim check: in the model a string / handle / file is identified with the AST it holds, so roundtrip_every_route is fromDict_toDict plus the modelled dispatch (which function each entry point calls, the truthiness test of triangle_to_json's file argument); text and file I/O are outside. fromDict_plain states fromDict j = ofJCells cells (a constructor refusal included). WFjson additionally requires: years 1000..9999, keys unique per dict, limit None/int/float, int64 array entries within int64, cells sorted, of one class and satisfying the constructor's date rules.",
        tech="Lean 4 model of encoder/decoder over a JSON AST + differential correspondence through plain parsers"),
    "C08": dict(level=PV, ref="§7 C08",
        text="14 kernel-checked theorems about the model of aggregate: window_consecutive/window_step/window_spec, "
             "aggPeriod_cell_spec (exactly one output cell per slice, window and evaluation date that has a source "
             "cell; additive field = sum over the source cells of that slice and evaluation date inside the window), "
             "aggPeriod_conserves (per slice, evaluation date, field and sample), aggPeriod_error_iff_straddle (TriangleError "
             "exactly when a cell crosses a window end, given the walk does not fail for another reason), "
             "window_disjoint_month / window_disjoint_day, "
             "aggEval_eq_filter, evalGrid_spec, aggregate_incremental_commutes; none open. "
             "Correspondence: dumps vs model for source resolutions 1/3/6/12 x target month/quarter/half-year/year x "
             "origins at any month end in a 9-year span, day/week resolutions on day-level triangles, with the Spec "
             "(closed-form windows, conservation, expectStraddle) on the implementation's output.",
        note=COMMON_NOTE + "Non-month-end origins with month units only in a separate stream compared against the model. "
             "Window disjointness relies on C12 date arithmetic (Spec evaluates the closed form on every output)."
             " Audit follow-up: the window anchor is tied to the requested origin (anchor_spec_month: the anchor is the last day of month M0 + j*q, strictly before the earliest period start, the next grid point not before it; anchor_spec_day; window_origin_month gives the closed form of every window from period_origin; evalGrid_origin_month: d in grid iff d = origin + k*res and first <= d <= last); aggPeriod_sums_inside_month: an output cell's field equals the sum over EXACTLY the source cells with o.ps <= c.ps, c.pe <= o.pe and the same evaluation date; straddle_iff_triangleError_month / straddle_raises_month (without the honly hypothesis: positive quantity, valid month-end origin, cells satisfying the constructor's date rules with valid period starts); aggregate_union_of_slices / aggregate_conserves lift to all slices; spec_windowsOk_month(_all), spec_evalOk_month, spec_expectStraddle_month bridge the Spec. Declared: the closed forms are for month units (for day/week units the anchor, disjointness and the regime-independent theorems are proved); Spec.C08.cover / cellSums / keysOk / conserves are evaluated on every implementation output but have no Bool bridge to the model; conservation with an evaluation resolution given at the same time is not lifted; the TriangleError statement is per slice (an earlier slice's other error can pre-empt it)."
             " Final round (supersedes the 'declared' sentences above): spec_holds_on_model_month - the WHOLE executable Spec (windowsOk, cover, cellSums, keysOk, conserves) holds on the output of aggregate for month units (Spec.C08.holds = those five clauses; evalOk / expectStraddle have their own bridges); spec_holds_on_model_month_eval and the day/week and mixed variants (spec_holds_on_model_day, _day_eval, _month_evalday, _day_evalmonth) incl. conservation when an evaluation resolution is given at the same time; window_origin_day, aggPeriod_sums_inside_day, straddle_iff_triangleError_day, evalGrid_origin_day: the closed forms also for day/week units. Still declared: source cells with valid period starts and period_start <= period_end; with an evaluation resolution the Spec's source is the triangle filtered by the closed-form evaluation grid (class-consistent triangle, valid evaluation dates); the theorems are for cumulative (non-incremental) triangles (an incremental one goes through aggregate_incremental_commutes and the C04 conversions); the TriangleError statements are per slice (an earlier slice's other error pre-empts); day/week statements assume dates inside date.min..date.max with one step of room; month units from a non-month-end origin, non-positive quantities and the empty triangle are outside these theorems.",
        tech="Lean 4 theorems (sum over a partition) + differential correspondence"),
    "C09": dict(level=PV, ref="§7 C09",
        text="25 kernel-checked theorems: the rule table regenerated from /repo by probing each closure is re-proved on "
             "every run (additive_rules_bound: every additive field's rule is the sum of that same field; "
             "ratio_rules_bound: documented weights; rules_complete; non_loss_metrics_bound), summarize_cell_spec, "
             "summarize_conserves, gcd_keeps_exactly_shared, the three refusal theorems with their exception class, "
             "no_premium_sum, summarize_ratio_spec (exact weighted average over Q), Spec bridges; none open. "
             "Correspondence with EVERY registered field name in the generator, 2-4 slices differing in any subset of "
             "attributes/details, both bases, summarize_premium both ways; conservation checked by the Spec on the "
             "implementation's output.",
        note=COMMON_NOTE + "exp/log of log_industry_lr are parameters of the model (key binding proved; value compared "
             "in Python with rtol 1e-9)."
             " Audit follow-up: defect D28 repaired (fix commit; with summarize_premium=False on a CUMULATIVE triangle a NON_LOSS_METRICS field (premium / exposure and the three reported_loss-weighted ratios) held by some cell of the coordinate takes the value of the FIRST CELL OF THE COORDINATE THAT HAS ONE: no_premium_sum, no_premium_value_existing, spec_nonLossOkStrict; regress seed regress_D28). Known finding D29 (KNOWN-FINDING line for that signature only): the weighted average of a ratio field keeps the weights of cells WITHOUT a value in the denominator (summarize_ratio_spec states exactly that; witness ratio_denominator_counts_valueless_weights). summarize_error_class_exact: with consistent metadata summarize raises class e IFF the first failing coordinate group raises e, hence summarize_error_unknown_field_class_any / _of_erased: TriangleError for an unknown field in ANY coordinate group provided every earlier group summarizes (the refusal itself is unconditional: summarize_error_unknown_field); summarize_wavglog_spec / summarize_log_industry_lr_spec: the exp/log rule's shape for an arbitrary transcendental pair (exp/log themselves outside the model). Accepted reading pinned by a witness: a detail shared by every cell with value None is dropped (shared_none_detail_dropped: None means no value).",
        tech="Lean 4 theorems over regenerated rule tables (decide +kernel) and over Q + differential correspondence"),
    "C11": dict(level=PV, ref="§7 C11",
        text="85 kernel-checked theorems, none open, about clip (six inclusive bounds incl. development lag in "
             "month/day/timedelta units), filter, select, right_edge, slices, split, every branch of Triangle.__getitem__ on the modelled index forms "
             "(int, positional slice, 3-index forms with date / open-ended slice / junk components, arity refusals), "
             "TriangleSlice (constructor refusal of several slices, its 2-index __getitem__, utils/slice.py), "
             "is_right_edge_ragged and extract: sliceOfCells_eq/_multi, sliceGetItem_eq_filter, sliceItemSpec_model, getItemSpec_model, "
             "pyIndex_spec, isRightEdgeRagged_iff, "
             "clip_eq_filter_conj, clip_inclusive, clip_complement_partition, filter_unchanged_sorted (a sub-list of a "
             "sorted list is not reordered by the constructor), slices_partition, split_partition, getItem_eq_filter, "
             "rightEdge_spec (max evaluation date per row, one per slice and period), select_keeps_cells, "
             "extract_length_order. Correspondence: dumps for bounds drawn from the triangle's own dates/lags, their "
             "+-1 day / +-1 month neighbours and out-of-range values, every subset of fields and detail keys; "
             "complementary clips must partition on the implementation; integer AND float lag bounds with evaluation dates on any "
             "day of the month; a TriangleSlice stream (direct construction, triangle_to_slice, chained indexing). Anchor coverage "
             "(tools/anchor_coverage.py): every anchored statement and branch arc of C11 is executed by the quick run.",
        note=COMMON_NOTE + "Month lags are floats in the code and exact rationals in the model: lag bounds are the "
             "triangle's own lags (bit-identical) and lags +-1, kept where float and exact comparison agree."
             " Domain: canonical triangles (C01's invariant); period starts within date.min..date.max; clip lag bounds of the unit's type; for the n / n+1 lag complement every lag of the triangle is a whole number in the unit (always true for day / timedelta). Behaviour the words leave open, pinned by theorems: an absent detail key and one holding None land in the same split group (splitKey_missing_eq_none); a date as period index constrains the period start only (itemKeep_scalar). Not modelled: a falsy non-None end of an evaluation slice, truthy non-date slice ends, datetime.datetime indices; stepped positional slices t[i:j:k] are compared with C01's model only."
             " Claim check: the *_eq_filter and *Spec_model theorems carry Canon t, period starts within date.min..date.max and index components that are not 'bad'; the TriangleSlice versions also need a single slice; getItem_bad_period is proved with metadata index None; clip_complement_partition is the max_eval = b / min_eval = b + 1 day pair, the other bounds are clip_*_complement and clip_wholeLag / _dayLag_complement_partition.",
        tech="Lean 4 proof (filter/sublist/partition algebra on sorted lists) + differential correspondence"),
    "C12": dict(level=PV, ref="§7 C12",
        text="53 kernel-checked theorems, none open, about the exact model of date_utils (incl. the date.max / inf sentinel short-circuits of calculate_dev_lag and add_months, Model/DateUtilsExt): addMonths_devLag_iff (the inverse law "
             "holds in the model iff the target is >= 1970 or a month end - the exact extent of known finding D8), "
             "addMonths_devLag_partial, the pre-1970 counterexample, addMonths_int_monthId, addMonths_monthEnd, "
             "addMonths_add, addMonths_neg, devLag_monthEnds_int, devLag_days_eq_ordinal_diff, ordinal/ofOrdinal "
             "inverse on the whole date range, idToMonth/monthToId inverses, resolutionDelta laws, and the unit-spelling "
             "dispatch of standardize_resolution / calculate_dev_lag (general if-chain statements plus the table of "
             "spellings). The all-dates inverse law is kept visible as REFUTED (false because of D8, with the "
             "counterexample and the exact iff). The code is "
             "IEEE floating point, the model exact: the tie is exhaustive on the property's finite domain - thorough "
             "enumerates every date 1970-2100 x every k in [-600,600] (per-start-date digests from the compiled driver "
             "vs bermuda.add_months), all pairs in sliding windows, 1900-1969; quick: all month ends x all k, random "
             "dates x all k, 200k random pairs.",
        note=COMMON_NOTE + "IEEE rounding inside add_months/dev_lag_months is not modelled (decided by enumeration on the "
             "stated range). Known finding D8 (results before 1970-01-01) is listed in known_findings.json and printed "
             "as KNOWN-FINDING; any failing input with expected result >= 1970 is a violation."
             " Audit follow-up: resolution_delta is also modelled on RAW unit strings as written (resolutionDeltaRaw_*: the function tests units == 'month' on the raw string, so (1,'months'), 'quarter', 'year', 'week' add ONE DAY) - an unvalidated precondition: every caller in /repo passes standardised units or raw 'days'; the property's clauses are claimed after standardize_resolution. Compose / undo (addMonths_add, addMonths_neg) are judged on the implementation through Spec.composeOk / undoOk on month-end starts 1900-2100 (spec_compose, spec_undo); ordinal_ofOrdinal is a property theorem. Fractional offsets differ from the code at round() ties of frac x days_in_month (exact half-even vs float): those inputs are excluded from the model comparison, the inverse law is still demanded of their results."
             " Claim check: addMonths_add / addMonths_neg hold for MONTH-END starts and integer offsets (not claimed for mid-month starts or fractional offsets); addMonths_int_monthId needs the target month from 1970-01 on (addMonths_int_pre1970: one month late before); ordinal_ofOrdinal is one direction ((ofOrdinal n).ordinal = n for n in 1..3652059); devLag_days_eq_ordinal_diff is definitional, its calendar meaning is ordinal_counts_days; the thorough enumeration covers every date 1970-2100 x every integer k in [-600, 600] whose target month stays within 1970-01..2100-12.",
        tech="Lean 4 theorems over Q (floor/round arithmetic) + exhaustive enumeration digests from the compiled model"),
    "C13": dict(level=PV, ref="§7 C13",
        text="63 kernel-checked theorems (incl. is_slicewise_disjoint and slice_period_rows, Model/AccessorsExt): every accessor equals the sorted-distinct values / counts of the cells "
             "(periods, evaluation_dates, dev_lags, fields, metadata, field_cell_counts, field_slice_counts), "
             "isDisjoint_iff_pairwise_nonoverlap (the adjacent test is complete on start-sorted periods), nesting "
             "regular => semi-regular => disjoint, resolution_dvd_all and resolution_greatest, experienceGaps_spec, "
             "common_keeps_exactly_shared, recombine_diff (common + difference = the slice's metadata, full Metadata "
             "equality), isSemiRegular_iff_equal_lengths and isRegular_iff_const_spacing against independently written "
             "Spec definitions, evaluationDate_spec, numSamples_spec; none open. Correspondence: accessor dumps vs model and taxonomy booleans vs "
             "independently written Spec definitions over regular / semi-regular / irregular / erratic layouts.",
        note=COMMON_NOTE + "Month-unit taxonomy compared only where float (in)equalities agree with the exact ones "
             "(guard counts in the evidence)."
             " Audit follow-up: 33 earlier + 43 new property theorems (29 helpers moved to Lemmas/AccessorsHelpers.lean): evalDateResolution_spec / _defined / _same_month / _distinct_months; periodResolution_largest (0 < r, greatest), _defined_iff; experienceGaps_sound / _complete / _ascending / _inverted_iff; fifteen spec_* bridges (sortedDistinct, counts, numSamples, gaps, common, recombine, both resolutions). Readings declared: eval_date_resolution returns 0 (not None) when ALL evaluation dates lie in ONE calendar month and at least two of them differ (evalDateResolution_same_month) - degenerate, every month count divides a zero gap; as soon as two calendar months occur the result is positive and the largest common divisor of the gaps between distinct months (evalDateResolution_distinct_months); experience_gaps are specified for disjoint periods - for overlapping periods the code reports inverted ranges (experienceGaps_inverted_iff; the Spec clause is gated by disjoint)."
             " Claim check (hypotheses): metadata_eq_sortedDedup / recombine_diff / spec_recombineSpec for canonical metadata (key-sorted detail dicts); common_keeps_exactly_shared / spec_commonSpec for detail dicts with distinct keys; the disjointness and taxonomy equivalences for cells with period_start <= period_end and an explicitly given dev-lag unit; resolution_dvd_all / resolution_greatest speak about _multi_gcd in the divisibility order (the accessor statements are periodResolution_largest and evalDateResolution_spec); 76 counts the public theorems (9 private helpers are not counted); sixteen spec_* bridges in total.",
        tech="Lean 4 theorems (sortedDedup, gcd, pairwise non-overlap) + differential correspondence"),
    "C14": dict(level=PV, ref="§7 C14",
        text="PARTIAL (pandas' CSV text layer - dtype inference, NaN handling, date parsing, float formatting - is library behaviour outside the model, correspondence only; the row algebra is proved). 65 kernel-checked theorems, none open. Row-algebra model of the wide/long CSV writers and readers, the array data frame and the Matrix form. "
             "Proved: slices_preserved_keys (decide over the group-by key lists regenerated from /repo: they contain "
             "the coordinates, all six metadata columns and the detail columns), groupKey_determines_metadata, "
             "slices_preserved_wide/long, rows_count_wide/long, fromWide_toWide and fromLong_toLong (cumulative triangles: "
             "rows grouped by the generated key list recover exactly the cells, scenario-sorted blocks recover sample "
             "order), fromArrayFrame_toArrayFrame (+ the inferred-resolution form, the D19 statement), "
             "fromMatrix_toMatrix for triangles on the index grid, fromWide_toWide_incremental and fromLong_toLong_incremental "
             "(the one-row-per-cell incremental streams), matrixIndex_onGrid (the gcd-inferred Matrix index puts every contiguous "
             "month-aligned triangle on its grid) and fromMatrix_toMatrix_contiguous (default triangle_to_matrix call, no grid "
             "hypothesis). Round 6 brought the rest of the anchored code inside the model: the rich matrix "
             "(triangle_to_rich_matrix / rich_matrix_to_triangle: fromRich_toRich as an exact equality for cumulative and incremental "
             "triangles with arbitrary values, toRich_placement), MatrixIndex.from_triangle and triangle_to_matrix with all optional "
             "arguments, the rest of io/array.py (parse_date, statics_data_frame_to_triangle incl. its days//30 inference with "
             "statics_inference_table and statics_february_refused, triangle_to_right_edge_data_frame, array_triangle_builder) and the "
             "in-memory data frames (column dtypes vs _check_index_columns: longFrame_never_reads_back, wideFrame_incremental_refused, "
             "fromWideFrame_toWideFrame); fromWide_toWide covers sample triangles whose cells carry different field sets (D24); round 3: toRich_indexError_iff, "
             "toRich_disagg_spec (disaggregation ids = running count of spanning items, same value on the whole anti-diagonal), "
             "toRich_missing_ids (MissingValue(n) exactly on covered, in-array, still-None positions in scan order), fromRich_ignores_disagg, "
             "parseDate_year/_quarter/_half/_month/_iso/_refusals for every year 1..9999, fromArrayFrame_args(_inferred) for any "
             "eval_resolution / dev_lag_from_period_end / metadata, arrayBuilder_spec (= merge of the single-field triangles, C10). "
             "Correspondence: CSV text parsed with Python's csv module vs the model's rows, "
             "from_*_csv(to_*_csv(t)) vs original and model for slices distinguished by any single attribute or "
             "detail, sample order through the scenario column, array-frame round trips over resolutions 1/3/6/12 and "
             "every start month, Matrix round trips incl. quarterly periods evaluated annually and holey triangles, rich-matrix, "
             "statics, right-edge and in-memory-frame streams, ragged field sets, falsy-everywhere detail columns, twin files that "
             "differ only in column names loaded in one process; chainladder round trip Spec-only (third-party).",
        note=COMMON_NOTE + "pandas (dtype inference, NaN handling, date parsing, float formatting) is the trusted/opaque "
             "layer; size-1/0-d arrays are canonicalised to their scalar as the property states 'numeric values as floats'."
             " Audit follow-up: row counts are restated independently of the writer (scenarioCount of a cell = 1 for scalars, S for S-sample cells; rows_count_wide_scenarios / rows_count_long_scenarios give the one-to-one correspondence rows <-> (cell, scenario[, field])); matrixIndex_total removes the index as a hypothesis (fromMatrix_toMatrix_default, fromRich_toRich_default: semi-regular, two evaluation months, one inferred resolution divides the other); every domain predicate has an inhabitant (wflong_example, wfwideIncr_example, wflongIncr_example, exQ_matrix_example). Declared: from_long_data_frame with non-empty loss_detail_cols is modelled and checked by the correspondence but has no theorem (the proved long round trip is the from_long_csv call, where loss details come back as details); the array-frame round trip is proved for one-field triangles, for several fields the pieces (fromArrayFrame_args, arrayBuilder_spec, C10 merge theorems) are proved but not composed."
             " Final round: fromWide_toWide_inferred / fromWide_toWide_incremental_inferred (the from_wide_csv call with detail_cols left out, field_cols and loss_detail_cols given, every declared detail column occurring in some cell's metadata: the reader infers list(set(columns) - CORE_SET - set(field_cols)); inferCols_written), and the wide-form domains only ask the detail / loss-detail column lists to be duplicate-free (the reader sorts detail items itself). Still declared: the multi-field array-frame round trip is not composed (needs Python's int(str(lag)) = lag and a permutation argument over C10's join pairs); the long form read back with non-empty loss_detail_cols is modelled and differential-checked only (field_cols=None: see the last round)."
             " Last round (cumulative triangles; field_cols=None AND detail_cols=None together, and the incremental analogue, are not done): fromWide_toWide_fieldsPerm (handed any permutation of the triangle's fields as field_cols the wide reader returns the triangle) and fromWide_toWide_fieldsInferred (field_cols=None: the inferred list is a permutation of the fields, inferFields_written) - cumulative triangles; the incremental analogue is not done."
             " Session 4 (supersedes the 'declared' sentences above about the long form and the array frame): fromLong_toLong_lossDetails (the long table read back with loss_detail_cols = L - L duplicate-free, inside the declared loss-detail columns and covering every loss-detail key of the triangle (LossCols, inhabitant lossCols_example) - gives the triangle itself with loss details as loss details: the model call the driver runs for the case long+loss_detail_cols), toLong_rowMetadata_lossDetails, arrayExpected_values_wf, arrayBuilder_two_fields_partial (two regular frames with explicit period_resolution: the builder equals merge(full) of the two expected triangles and every result merge returns satisfies C10's mergeSpecLast). Second pass (supersedes the partial): arrayBuilder_two_fields (under the two RegFrame hypotheses the builder RETURNS some out and C10's full mergeSpec holds of it), from merge_cumulative_returns (merge(full) of two lists of cumulative cells returns), arrayExpected_cumulative / _prev_none / _keys_nodup (distinct coordinates inside one expected triangle), cellAtLast_mem; closed instance arrayBuilder_two_fields_example (+ _domain: the two frames satisfy the RegFrame hypotheses; one coordinate only because the kernel cannot evaluate List.mergeSort on more). Third pass: arrayBuilder_fields (ANY number n >= 1 of regular frames with explicit period_resolution: the builder returns, the result is the iterated merge with every step returning and satisfying C10's mergeSpec(full) (MergeChain), and it is an all-cumulative triangle with distinct coordinates and distinct dict keys (CumTriangle); three-frame example; arrayBuilder_fields_partial kept, superseded) and arrayBuilder_two_fields_inferred (period_resolution=None, two frames each with at least two rows whose first two period starts are res months apart - the domain of the inference itself, fromArrayFrame_args_inferred). Fourth pass: arrayBuilder_fields_inferred (any n >= 1 frames with period_resolution=None, each Reg and Infers res: returns, MergeChain, CumTriangle). Still declared for the array builder: a one-formula description of the output per coordinate and field (it follows from the chain of mergeSpecs but is not stated).",
        tech="Lean 4 theorems over regenerated group-by tables + row-model differential correspondence"),
    "C15": dict(level=PV, ref="§7 C15",
        text="42 kernel-checked theorems for both bases, none open: rightTri_lags_exact, rightTri_metadata, rightTri_values_empty, "
             "rightTri_basis, rightTri_empty_when_complete, rightTri_disjoint_of_monotone (any unit and lag list under the "
             "exact hypothesis LagMonotone, with month and day instances), rightTri_incremental_chain, rightDiag_spec, "
             "fill_preserves_observed, fill_added_inside_gaps, fill_values, fill_complete, backfill_preserves_observed, "
             "backfill_added_before_first, backfill_min_lag(_exact), backfill_values, and the full Spec bridges for all four "
             "operators: extensionSpec_model_rightTri / _rightDiag / _fill / _backfill prove that the WHOLE executable Spec "
             "(observed cells kept as a list, no coordinate created twice, placement, metadata, values, completeness, "
             "canonical order) holds on the model's output. Every clause is also evaluated by the Lean Spec (rightTriSpec, "
             "rightDiagSpec, fillSpec, backfillSpec) on the implementation's output, and dumps "
             "are compared with the model, for complete / upper-left / ragged / single-period / single-lag triangles, "
             "1-3 slices, both bases, lag lists and units, resolutions, minimum lags incl. negative.",
        note=COMMON_NOTE + "Domain hypotheses of the bridges (each with a non-vacuity theorem): SpecDomain (canonical triangle and "
             "metadata, month-aligned from 1970 on, no coordinate occupied twice), BackfillOk (every cell the backfill loop would "
             "create passes the constructor's date rules - the Python loop stops at the first ValueError), a positive resolution; "
             "an explicit eval_resolution passed to fill_forward_gaps must divide the row's lag differences; backfill has no "
             "per-slice completeness clause (see DESIGN §12.2)."
             " Audit follow-up: make_right_diagonal(include_historic=True) is an explicit opt-in to historic dates and outside the clause 'never create a cell at an occupied coordinate': it places an empty cell at every requested date >= period start, also on observed coordinates (rightDiag_historic_recreates, rightDiag_historic_witness); for this flag the proved and checked clause set is rightDiagHistSpec (extensionSpec_model_rightDiag_historic: onGrid, complete, nodup, valuesEmpty, basis, chain, canonical). The Bool bridge extensionSpec_model_rightTri is proved for the month unit; for dev_lag_unit='day' the Prop-level theorems are unit-generic and the executable clauses onGrid / complete / nodup / emptyWhenComplete are checked on the implementation's output and by model = implementation only; 'timedelta' can only succeed when nothing is added. Success (.ok) is proved as totality for the right-hand operators on cumulative input and for backfill (rightDiag_total, rightTri_total, backfill_total') and as closed instances with the whole Spec in the conclusion for all four operators (exCells_rightTri_ok, exCells_rightDiag_ok, exFill_fill_ok, exBack_backfill_ok); no totality lemma for fill_forward_gaps or the incremental path. backfill fills only the lowest-metadata slice of each period (backfill_only_first_slice)."
             " Final round: extensionSpec_model_rightTri_day (all ten clauses of the right-triangle Spec for dev_lag_unit='day', both bases, for valid dates, integer lags and target dates inside date.min..date.max; closed instance exCells_rightTri_day_ok) supersedes the month-only restriction stated above; fill_total (fill_forward_gaps returns and the whole Spec holds on SpecDomain with a compatible resolution, given that no constructor call raises - MonthAligned does not bound the year from above; exFill_total). Still declared: success of the right-hand operators on IncrementalCell input additionally needs to_cumulative, to_incremental and _fix_prev_evaluation_date to return, which is exercised by the correspondence but not proved; 'timedelta' is compared model = implementation only."
             " Last round: rightDiag_total_incremental / rightTri_total_incremental (success only - no Spec in the conclusion, include_historic=False - on a Complete incremental triangle with canonical metadata, distinct requested dates / integer distinct lags, month unit, given that no constructor call raises; closed instances exU_rightDiag_ok, exU_rightTri_ok) supersede the sentence above about IncrementalCell input for the month unit; still declared for incremental input: include_historic=True (a historic date at or before the observed right edge makes the re-linked cell invalid and the library raises) and the day unit."
             " Session 4 (supersedes 'still declared for incremental input: include_historic=True ... and the day unit'): on a Complete incremental triangle make_right_diagonal(include_historic=True) raises ValueError exactly when a requested date not before a row's period start is at or before an observation of that row (rightDiag_incremental_historic_raises, rightDiag_total_incremental_historic: the hypothesis of the second is the negation of the raising condition; closed instances exU_rightDiag_historic_raises / exU_rightDiag_historic_ok; behaviour confirmed on the library first); make_right_triangle returns for the day unit as well (rightTri_total_incremental_day, exU_rightTri_day_ok). Still declared: the timedelta unit; inputs outside Complete (broken chains, duplicate requested dates, non-canonical metadata) are correspondence only; rightTri_incremental_collision_raises (a requested lag beyond every observed lag of a row whose date is at or before an observation of that row gives ValueError, e.g. a fractional day lag floored onto an observed date; closed instance exU_rightTri_collision_raises; confirmed on the library first); two requested lags floored onto the same new date, and a requested date given twice, on CUMULATIVE input: the library returns the empty cell twice with a DuplicateCellWarning and so does the model (rightTri_duplicate_lags_cumulative, rightDiag_duplicate_dates_cumulative: not out.Nodup; closed instances exCells_rightTri_duplicate_lags / exCells_rightDiag_duplicate_dates; eight requests observed on library and model first, all agree); on Complete incremental input both give ValueError in model and library (to_incremental of the new cells), observed but not proved; the month-unit form of rightTri_duplicate_lags_cumulative is not stated.",
        tech="Lean 4 proof (membership/structure of added cells, sorted-permutation uniqueness for the list equations) + Spec predicates on implementation outputs"),
    "C10": dict(level=PV, ref="§7 C10",
        text="82 kernel-checked theorems, none open, about the model of join (six types, with and without `on`), merge, coalesce, "
             "add_statics and period_merge: join_keys (key multiset = the relational set expression for all six types, "
             "no distinctness hypothesis), join_pairs_exact, join_carries_originals, join_on_metadata, merge_values "
             "(right wins), merge_unmatched_id, merge_self, coalesce_first_wins, addStatics_spec, periodMerge_spec. "
             "select_merge_recombine (split fields with select, merge back, get the original), the literal per-slice "
             "regrouping loops proved equal to the direct forms, and the Bool Spec bridges. The model is validated against /repo on every run exhaustively over all "
             "pairs (triples for coalesce) of sub-triangles of a small cell universe x six join types x every `on` "
             "subset plus random larger pairs, with the Lean Spec predicates on the implementation's outputs.",
        note=COMMON_NOTE + "Hypotheses: distinct join keys inside each operand and distinct dict keys (as Python dict "
             "building assumes); duplicates are a separate stream compared with the model only."
             " Audit follow-up: 52 property theorems + 8 witness theorems (generic helpers live in Lemmas/JoinHelpers.lean). join_pairs_last(_max, _own_order): which cell a join pair carries WITHOUT a distinct-keys hypothesis (the last cell of the re-sorted reduced operand), with Spec predicates joinSpecLast / mergeSpecLast so every join and merge case gets a verdict (also when slices collapse under `on`); coalesceSpec runs on every case. Accepted reading pinned by a witness: coalesce's coordinate ignores prev_evaluation_date (coalesce_ignores_prev: two incremental cells differing only in prev -> one is dropped; merge.py:195).",
        tech="Lean 4 proof on a relational model + exhaustive small-universe differential correspondence"),
    "C16": dict(level=PV, ref="§7 C16",
        text="PARTIAL (the statistical clause 'follows the weights' and numpy's RNG are outside the model; everything structural and algebraic is proved). 29 kernel-checked theorems, none open, about the model of blend: linear_value (out = sum w_j v_j with scalar "
             "broadcast), linear_convex, linear_agree, percell_alignment, global/list/dict weight normalisation, "
             "mixture_membership for EVERY index vector, mixture_scalar_passthrough, blend_structure, "
             "blend_value_composed, twelve refusal theorems (thirteen with dict_wrong_columns_refused) and seven Spec bridges. numpy's RNG draws are captured in-process and handed to the "
             "model as parameters; 'follows the weights' is statistical and outside the model. Correspondence: dumps "
             "(exact on dyadic data) for 1-4 triangles x all weight forms x both methods x seeds, Spec membership on the "
             "implementation's output, seed reproducibility, degenerate weights.",
        note=COMMON_NOTE + "Outside the model: numpy RNG stream, the statistical clause 'follows the weights'; relative "
             "tolerance 2^-40 only where weights=None with three triangles (1/3)."
             " Audit follow-up: spec_convex / spec_agree (convexity and agreement on the blend's OUTPUT; agreement stated for copies of one canonical triangle), blend_refuses_missing_coord / blend_refuses_unequal_scalars (lifted to blend = error; the class ValueError is proved at the failing cell since an earlier cell can pre-empt it), linear_value states that every input row has length 1 or exactly S (and Spec.linearFieldOk checks it on every implementation output), closed success instance blend [blExA, blExB] = ok blExOut. The RNG-interface check is positional: the k-th recorded np.random.choice call must carry the weight vector of the cell being blended. The seeding structure (same (S, p) gives the same index vector for a fixed seed) is observed by the harness, not modelled."
             " Claim check (hypotheses): the blend-level theorems (blend_structure, blend_value_composed, spec_structure, spec_agree, blend_refuses_missing_coord) assume a canonical first triangle; spec_linear / spec_mixture / spec_convex / blend_refuses_unequal_scalars pairwise distinct coordinates in every input; the Spec form of the membership (mixture_membership_exists, spec_mixture) assumes every drawn index below the number of triangles (mixture_membership itself is unconditional in the index vector); the closed success instance is Lemmas/BlendBridge.blEx_blend, used by an example (not counted).",
        tech="Lean 4 theorems over Q on a blend model with the RNG draws as parameters + differential correspondence"),
    "C17": dict(level=PV, ref="§7 C17, §12.6",
        text="PARTIAL (the DISTRIBUTION of the draws - volume weights of rng.choice, uniformity of rng.uniform, numpy's samplers, hence the realised mean/variance "
             "of moment-matched samples - and the lognormal parameters (log/sqrt) are statistical/transcendental and outside the model; the deterministic "
             "arithmetic of all three resamplers is inside, over Q with the RNG draws as parameters). 57 kernel-checked theorems, none open: "
             "reimposeRank_order / _perm, develop_first_unchanged, develop_coords_fields, bootstrap_count, thin_same_positions, "
             "thin_scalars_untouched, thin_eq_self, thin_error, momentMatch_structure, momentMatch_other_fields, bootstrap_structure for EVERY "
             "draw vector; maximum_entropy_ensemble statement by statement (trimmed-mean / explicit limits, interval ends, mean-preserving "
             "shift, searchsorted index, piecewise-linear quantile function, sorted(quantiles), rank re-imposition, guards in code order): "
             "me_index, me_interval_ends, me_quantile_in_interval, me_quantile_mono(_within), me_quantile_not_monotone (why sorted is needed), "
             "me_output, me_envelope, me_within_limits (if limitsBind holds the replicate stays inside the given limits; when it does not it can leave them: witness me_exceeds_upper_limit), "
             "me_within_limits_trimmed, me_bootstrap_limits, me_exceeds_upper_limit (kernel-checked witness of known finding D26); the "
             "age-to-age arithmetic (empirical factors, resampling by drawn positions, develop_value: k-th cell = first * product of factors, "
             "chain_identity, bootstrapD_is_bootstrap); moment_match's sampler arguments (mean, population variance, count, gamma_params_match); "
             "Spec bridges. Correspondence: recorded uniform / index draws handed to the model, Spec predicates on implementation outputs "
             "(structure, bootstrap=i detail, first cell unchanged, rank order, interval/envelope/limits/permutation/value clauses, chained "
             "product, thin index consistency, same seed same output), series of 1..1000 values, late-slice / twin / derived-warm-cache / "
             "identity-draw streams.",
        note=COMMON_NOTE + "Known finding D26 (known_findings.json): 'within the given limits' is false of the code when the limits do not "
             "bind (KNOWN-FINDING line for that signature only). float64 vs exact rationals: relative tolerance 2^-40 on the magnitude of the "
             "series in the harness/Spec slack only. Numeric-only Python checks: moment_match mean/std bands, lognormal parameters."
             " Audit follow-up: bootstrap-level bridges spec_bootstrap_structure, spec_first_unchanged (develop_first_unchanged lifted through _bootstrap_slice, the tag and sum(boot)), spec_bootstrapD (hypotheses: pairwise distinct coordinates, tag-injective metadata, uniform field names, canonical triangle; satisfiable by a closed example); the value clauses membership / chain / reproduces are evaluated by the driver on implementation and model outputs but have no bridge theorem (Prop form: develop_value, chain_identity, resampledAtas_identity). The probability vector p handed to rng.choice (volume weights incl. eval_date_resolution: ata_weights_probability), the call shape of every RNG call (thin: one choice(n, k, replace=False) with ValidDraw - thin_positions_count; age-to-age: choice(range(m), size=m, p, replace=True) per lag and field with the same p in every replicate) and the moments handed to the sampler are modelled and compared at the RNG interface; only the DISTRIBUTIONS realised by numpy and the lognormal parameters stay outside. me_bootstrap_limits_bind_iff is the exact signature of D26. The maximum-entropy Spec clauses mePermOk / meValueOk / meIntervalsOk and chainOkSlice / weightsOk / momentsOk are differential (they re-run the model's arithmetic); independent clauses: rankOrderOk, rankFixed, meLimitsOk, meEnvelopeOk. No kernel-checked closed instance of bootstrap = ok (mergeSort is not kernel-evaluable; closed instances exist for thin and momentMatch)."
             " Final round: me_centre_width and spec_me_independent restate the maximum-entropy value and interval clauses WITHOUT the model's quantile function (centre +- width/2 of the draw's grid cell floor(u*n); meValueCWOk / meIntervalsCWOk, which together with rankFixed determine the replicate), so those clauses are no longer differential; chain_step_ok / spec_chain_cells: every developed cell satisfies the per-cell chain clause against the developed cell before it. Still declared: chainOkSlice / ataMembershipOk / reproducesSlice = true on the whole bootstrapD output (missing: monotonicity of calculateDevLag in the evaluation date, the Spec's own ratio table, the upper-left-shape argument) - evaluated by the driver on model and implementation outputs in every run."
             " Last round (supersedes the 'missing: monotonicity' remark above): dev_lag_strict_mono (the month lag is strictly monotone in the evaluation date, any day of the month) and spec_chain_slice / spec_chain_replicate (chainOkSlice = true for the replicate of ONE slice - all cells one metadata, sorted, distinct coordinates and dict keys, age-to-age method - i.e. what _bootstrap_slice computes from numpy's index draws; hypothesis RowsByLag - the cells of a period with a smaller lag end with the list predecessor - exhibited on a 2x2 square). Still declared: RowsByLag is not yet derived from 'sorted slice with valid dates'; the lift to the k-th slice inside the summed multi-slice replicate; ataMembershipOk and reproducesSlice."
             " Very last round: rows_by_lag (SliceLayout s -> RowsByLag s: sorted by Cell.le, one metadata, calendar-valid evaluation dates, distinct evaluation dates within a period) removes the RowsByLag hypothesis: spec_chain_slice_layout, spec_chain_replicate_layout, and spec_chain_bootstrapD_single (chainOkSlice holds for every replicate of the model's bootstrapD output on a ONE-slice triangle). Still declared: the k-th slice of a multi-slice replicate; ataMembershipOk and reproducesSlice; no closed instance of bootstrap = ok."
             " Session 4 (supersedes 'the k-th slice of a multi-slice replicate' and 'no closed instance of bootstrap = ok'): bootstrapD_ok_instance / bootstrapD_ok_exists (closed kernel-checked success of the model's bootstrap on a 2x2 one-slice square with index draws [1, 0]; chainOkSlice evaluated true on it through spec_chain_bootstrapD_single, so that bridge is not vacuous), spec_chain_bootstrapD_slices (for every slice s = slices[k] with SliceLayout, age-to-age method and distinct field names, of a kind-consistent tag-injective triangle, chainOkSlice holds of every replicate of bootstrapD), spec_ata_membership_partial (every factor the resampled table answers is a member of the model's empirical column for that lag and field). Second pass: bootstrapD_ok_two + spec_chain_two_slice_instance (closed two-slice instance: chainOkSlice true for both slices through spec_chain_bootstrapD_slices with every hypothesis discharged), spec_ata_membership_bootstrapD_partial (ataMembershipOk = true for every replicate over all slices GIVEN ColumnsInRatios - the factors of the model's table into a cell's lag lie in the Spec's own ratio column; everything else is proved: sliceOf is the k-th slice, the coordinate lookups in the summed replicate, the falsy / unselected / missing-field branches), spec_ata_membership_instance (that hypothesis discharged on the closed square). Third pass: spec_ata_membership_bootstrapD (ataMembershipOk = true for every replicate over all slices WITHOUT ColumnsInRatios, for slices satisfying RegularLags = {uniq: a period has at most one cell per lag; noSkip: the row predecessor's lag is the lag preceding the cell's lag in sortedLags - a genuine assumption, membership can fail where a period skips a lag; clipEnds: in the triangle clipped to two consecutive lags consecutive same-period cells sit exactly at those lags - derivable from SliceLayout but still a named hypothesis}), safe_ata_division_agrees (the model's safe division is the Spec's), regular_lags_instance / spec_ata_membership_regular_instance (closed inhabitant, every hypothesis discharged). Fourth pass: spec_ata_membership_bootstrapD_layout (uniq derived from SliceLayout - uniq_period_lag; the only regularity hypotheses beyond SliceLayout of every slice are NoSkipLags = {noSkip, clipEnds}; closed inhabitant no_skip_lags_instance). Still declared: clipEnds is not yet derived from SliceLayout; reproducesSlice.",
        tech="Lean 4 theorems over Q on models of the three resamplers with the RNG draws as parameters + Spec predicates on "
             "implementation outputs + differential correspondence"),
    "C18": dict(level=PV, ref="§7 C18",
        text="32 kernel-checked theorems, none open: currency_spec (bijection input/output cells, exactly the generated "
             "currency fields times the slice rate, everything else unchanged, target set; both refusals), disagg_sum "
             "and disagg_weights_sum_one (renormalised weights sum to 1 over Q so sub-period values add up), "
             "policyYear_basis, policyYear_conserves (full model-level conservation per evaluation date, field and "
             "component), premium_sums, premium_nonneg, premium_earned_le_written (convolution bound), disagg_conserves, "
             "disagg_tiling (sub-periods are the closed-form whole-month blocks tiling the period), aggregate_disagg "
             "(aggregating disaggregate_experience(t) back to the original resolution returns exactly the observable cells of t: "
             "same coordinates once each across slices in triangle order, cumulative cells, the selected fields with the input's values; "
             "aggregate_disagg_default discharges the rule hypothesis for the default field list by decide over the regenerated "
             "tables), and the Bool Spec bridges. CURRENCY_FIELDS and the interpolation-field list "
             "are regenerated from /repo each run. Correspondence over four streams (currency, disaggregation, policy "
             "year, premium pattern) with conservation Specs evaluated on the implementation's outputs, incl. "
             "aggregate(disaggregate(t)) = t on the implementation.",
        note=COMMON_NOTE + "Exact on dyadic data; relative tolerance 2^-40 where the code divides (default 1/n weights, "
             "renormalisation, share and pattern normalisation). aggregate_disagg: canonical triangle and metadata, one period "
             "resolution L in all slices, aggregate called with (L, month), month-end origin on whose grid all period starts lie. "
             "Policy-year conversion with continuous_issuance=False "
             "and accident periods no policy reaches is outside the share table's contract (reported as uncovered)."
             " Audit follow-up: policyYear_conserves assumes policyCovered; by policyYear_covered_iff this is exactly 'every accident period is reached by a policy year of policy_years_covered' (month arithmetic on the inputs; policyYear_conserves_reached); with continuous issuance every first-of-month period start contained in a policy year is reached (policyYear_reached_of_contains); that the policy years contain every period start is evaluated by the driver on every case, not proved. currency_spec_bridge assumes no two cells collide after conversion; for twin-slice inputs (slices identical after conversion: the library keeps both cells and only warns) the statement is currency_spec (bijection, no such hypothesis; closed instance currency_twin_slices). aggregate_disagg precisely: aggregate(disaggregate_experience(t)) at the original resolution returns exactly the SELECTED fields (default DEFAULT_INTERPOLATION_FIELDS) of the cells of t whose first sub-period is over at their evaluation date, as CumulativeCells with the same metadata, period and evaluation date, each once and in triangle order, with exactly the input's numbers (ints come back as equal floats); every other field and every cell without an observable sub-period is dropped (disagg_drops_unselected, disagg_drops_unobservable); cumulative / plain-Cell triangles only - disaggregate_experience on incremental triangles is not modelled and not generated. One shape per field within a slice is assumed (the code does not check it)."
             " Final round: policyYear_covered_of_continuous (1 <= len, month-aligned periods from 1971 on: with continuous issuance policyCovered HOLDS, for every origin incl. arbitrary days) and policyYear_conserves_continuous (conservation with input-level hypotheses only) supersede the 'not proved' sentence above for continuous issuance; currency_spec_bridge_sorted (the executable predicate holds on the model's output for a sorted triangle with canonical metadata and pairwise distinct coordinates BEFORE conversion - no collision hypothesis; the greedy matching succeeds because the stable sort keeps colliding cells in input order). Still declared: point issuance with policy_length_months < 11 drops accident periods no policy year reaches (exact condition: policyYear_covered_iff)."
             " Claim check: aggregate_disagg additionally assumes disaggWF (decidable, evaluated by the driver on every case: per slice the resolution L is a positive multiple of res, every period starts on the first of a month from 1970 on and is exactly L months long, no repeated cell, distinct value keys, disjoint periods at equal evaluation dates), no evaluation resolution, and that every selected field occurring in t is summarised as 'sum of itself'; its conclusion is a disjunction (nothing is claimed when disaggregate_experience returned t unchanged); aggregate_disagg_default is for fields=None and summarize_premium=True; disagg_tiling: for a period starting on the first of a month from 1970 on, sub-period k is the closed-form whole res-month block, consecutive blocks abut, the observable ones are a prefix (that the blocks exhaust the period needs the L-month length of disaggWF); disagg_drops_unselected / _unobservable are closed witnesses (the general fact is inside aggregate_disagg); the currency refusals give 'some error', the class ValueError is currency_refusal_class when no currency field is None; policyYear_conserves is per Policy-basis slice under policyCovered and UniformShapes (one shape per field within a slice, a hypothesis of the policy-year theorems); 'policy_length_months < 11' is a reading, the exact condition is policyYear_covered_iff.",
        tech="Lean 4 proof over Q (conservation laws, round trip through aggregate) + regenerated tables + differential correspondence"),
    "C20": dict(level=PV, ref="§7 C20",
        text="PARTIAL (altair/Vega-Lite validity is library behaviour, correspondence only). 25 kernel-checked theorems, none open, about the model of build_plot_data (both values of remove_empties: records_one_per_cell_in_order_opt, record_slots, spec_holds_on_model_opt) and FieldSummary: "
             "records_one_per_cell_in_order, lossRatio_value (100*loss/premium), passthrough_value, ata_value, "
             "absent_input_no_summary, quantile_levels_named and quantile_levels_sorted (decide +kernel over the "
             "tables regenerated from /repo: q2_5 -> 1/40 ... q97_5 -> 39/40 position by position), quantile_mono "
             "(numpy's linear-interpolation quantile over Q is monotone in the level), min_le_quantile_le_max, "
             "summary_monotone, neighbours_same_slice. The metric table (COMMON_METRIC_DICT bodies, arity, order) is "
             "regenerated each run. spec_holds_on_model proves the whole executable Spec on the model's output. Correspondence: records of build_plot_data vs model, the "
             "Lean Spec on the implementation's records, percentiles recomputed independently with fractions, and "
             "every working plot_* method validated against altair's bundled Vega-Lite schema with one facet per slice.",
        note=COMMON_NOTE + "altair/Vega-Lite validity and the chart builders are library behaviour (correspondence only); "
             "sd uses a square root (compared through its square); plot_drip/plot_hose fail on the unchanged tree with "
             "the installed altair and are excluded (probed and listed each run); ratios at tolerance 2^-40."
             " Audit follow-up: the statistics are characterised independently of the model's formulas (order_statistics, sortRat_unique, minimum_is_least, maximum_is_greatest, quantile_between, quantile_at_grid, quantile_zero, quantile_one, median_eq_quantile_half, mean_mul_length, variance_pair and variance_eq_mean_sq pinning the POPULATION variance); flat and keep_samples are modelled (flat_unflat via flat_keys_injective, flatOk_model, keepSamples_stats_unchanged, keepSamples_metric_entry, keptOk_model); ValidT (no two cells share metadata, period and evaluation date; value keys of a cell distinct) is necessary (validT_necessary). The oracle for the implementation's numbers is the harness's recomputation with Python fractions. Outside: the square root of sd; Vega-Lite validity and chart layout (correspondence only; facet count compared with the model's slice count); with flat=True and keep_samples=True the sample dict is flattened to keys metric_<i> without the metric name, so samples of different metrics overwrite each other in the flat record (quirk of _flatten_dict; those keys are ignored by the check); numpy's summation order (means compared with tolerance 2^-40)."
             " Claim check: spec_holds_on_model is for a valid triangle (ValidT) and the default-call Spec (Spec.holds); holdsOpt (remove_empties), flatOk (flat) and keptOk (keep_samples) are bridged by spec_holds_on_model_opt, flatOk_model and keptOk_model; validT_necessary is one closed counterexample for ValidT's first clause (two cells sharing the coordinates); quantile_mono is for a non-empty sample and 0 <= q <= q'; record_slots and flat_unflat also need ValidT.",
        tech="Lean 4 theorems over Q (quantile monotonicity) and over regenerated tables + record-level correspondence"),
}

PENDING = ("check under construction in this round (model and correspondence not yet integrated); it will be claimed "
           "once its Lean theorems and correspondence run clean on the unchanged tree")


def main():
    props = [json.loads(l) for l in open(os.path.join(ROOT, "properties.jsonl"))]
    checks, na = [], []
    import re
    for p in props:
        i = p["id"]
        if i in CLAIMS:
            c = dict(CLAIMS[i])
            # the theorem count quoted in the claim is taken from the last evidence file (what the audit of the
            # last run actually counted), never typed by hand
            ev = os.path.join(ROOT, "evidence", f"{i}.json")
            if os.path.exists(ev):
                n = len(json.load(open(ev))["coverage"].get("theorems", []))
                c["text"] = re.sub(r"\b\d+ kernel-checked theorems", f"{n} kernel-checked theorems", c["text"], count=1)
            checks.append({
                "property_id": i, "quick_cmd": f"./check {i} quick", "thorough_cmd": f"./check {i} thorough",
                "evidence_file": f"evidence/{i}.json", "replay_cmd_template": "cat {path}", "engine": "lean4-model",
                "level_claimed": {"category": c["level"], "text": c["text"], "design_ref": c["ref"]},
                "level_note": c["note"], "technique": c["tech"]})
        else:
            na.append({"property_id": i, "reason": PENDING})
    m = {
        "version": 1,
        "setup_cmd": "bash tools/setup.sh",
        "hooks": {"guard": "BERMUDA_LEDGER_VERIF",
                  "enable": "no source hooks: every observable is reached through the public API from the harness "
                            "process (./check exports BERMUDA_LEDGER_VERIF=1 but nothing in /repo reads it)",
                  "baseline_off_cmd": "cd /repo && /venv/bin/python -m pytest -ra -q -p no:cacheprovider --timeout=900 --continue-on-collection-errors",
                  "source_commits": [], "add_only": True},
        "engines": [{"name": "lean4-model", "path": "lean", "serves_properties": [c["property_id"] for c in checks],
                     "kind_free_text": "Lean 4.33 library Bermuda (core-only executable model, Spec predicates, "
                                       "property theorems) + compiled drivers drv_cXX + Python correspondence harness + "
                                       "translator regenerating Generated/*.lean from /repo"}],
        "checks": checks,
        "notes": "exit codes: 0 held, 1 VIOLATION line, 2 infrastructure/timeout. VERIF_SEED selects the PRNG stream. "
                 "known_findings.json lists genuine defects (fixed: repaired by a fix: commit; known: recorded).",
        "not_applicable": na,
    }
    json.dump(m, open(os.path.join(ROOT, "MANIFEST.json"), "w"), indent=1)
    # library root imports every claimed property module
    root = ["import Bermuda.Model.Basic", "import Bermuda.Model.Order", "import Bermuda.Model.Triangle",
            "import Bermuda.Model.Ops", "import Bermuda.Model.DateUtils", "import Bermuda.Model.Json"]
    root += [f"import Bermuda.Properties.{c['property_id']}" for c in checks]
    root.insert(7, "import Bermuda.Properties.C01Ext")
    open(os.path.join(ROOT, "lean", "Bermuda.lean"), "w").write("\n".join(root) + "\n")
    print("claimed:", [c["property_id"] for c in checks])


if __name__ == "__main__":
    main()
