#!/usr/bin/env python3
"""Regenerates MANIFEST.json from the claims table below (one entry per claimed property).
Properties without an entry are listed under not_applicable with the reason in PENDING."""
import json
import os

ROOT = os.path.dirname(os.path.dirname(os.path.abspath(__file__)))

COMMON_NOTE = ("Trusted base: Lean 4.33 kernel; axioms propext, Classical.choice, Quot.sound only (audited per theorem on "
               "every run, no sorry/native_decide/bv_decide/own axioms); CPython/numpy semantics of the constructs as "
               "modelled (DESIGN §4); harness/translate.py (tables regenerated from /repo each run); the correspondence "
               "harness (generator quality bounds what it sees; histogram in the evidence). ")

PV = "proof"
TV = "translation_validation"

CLAIMS = {
    "C01": dict(level=PV, ref="§7 C01, §12.1",
        text="Kernel-checked theorems about a hand-written executable model of Metadata.__lt__, Cell.__lt__, "
             "IncrementalCell.__lt__, the Triangle constructor and ten public operations: strict total order on "
             "canonical metadata, sortedness, permutation, input-order independence for EVERY permutation "
             "(ofCells_perm_invariant, ofCells_coords_perm_invariant), contiguity and order of slices, and closure of "
             "the canonical form under every chain of the modelled operations (run_canonical, induction over the op "
             "list). Tied to /repo each run by probed attribute-order tables (theorem tables_order over regenerated "
             "definitions) and by a differential correspondence (constructor under permutations x list/tuple/generator, "
             "sorted(metadata) and the < matrix, random operation chains) with the Lean Spec predicate evaluated on the "
             "implementation's outputs; for ~25 further public operations the Spec runs on the implementation's output "
             "after each step of random chains.",
        note=COMMON_NOTE + "Operations beyond the ten modelled ones are covered by the Spec predicate on implementation "
             "outputs only (no closure theorem for them).",
        tech="Lean 4 proof (order laws by compareLex structure, uniqueness of stable sort, induction over op lists) + "
             "probed tables + differential correspondence with compiled Lean model"),
    "C10": dict(level=TV, ref="§7 C10",
        text="47 kernel-checked theorems about the model of join (six types, with and without `on`), merge, coalesce, "
             "add_statics and period_merge: join_keys (key multiset = the relational set expression for all six types, "
             "no distinctness hypothesis), join_pairs_exact, join_carries_originals, join_on_metadata, merge_values "
             "(right wins), merge_unmatched_id, merge_self, coalesce_first_wins, addStatics_spec, periodMerge_spec. "
             "Five statements remain OPEN (three Bool-bridge lemmas, select_merge_recombine, regrouping equivalence), "
             "hence translation_validation: the model is validated against /repo on every run exhaustively over all "
             "pairs (triples for coalesce) of sub-triangles of a small cell universe x six join types x every `on` "
             "subset plus random larger pairs, with the Lean Spec predicates on the implementation's outputs.",
        note=COMMON_NOTE + "OPEN statements are listed in the evidence (open_statements).",
        tech="Lean 4 theorems on a relational model + exhaustive small-universe differential correspondence"),
    "C16": dict(level=TV, ref="§7 C16",
        text="23 kernel-checked theorems about the model of blend: linear_value (out = sum w_j v_j with scalar "
             "broadcast), linear_convex, linear_agree, percell_alignment, global/list/dict weight normalisation, "
             "mixture_membership for EVERY index vector, mixture_scalar_passthrough, blend_structure, and ten refusal "
             "theorems; one composition statement OPEN. numpy's RNG draws are captured in-process and handed to the "
             "model as parameters; 'follows the weights' is statistical and outside the model. Correspondence: dumps "
             "(exact on dyadic data) for 1-4 triangles x all weight forms x both methods x seeds, Spec membership on the "
             "implementation's output, seed reproducibility, degenerate weights.",
        note=COMMON_NOTE + "Outside the model: numpy RNG stream, the statistical clause 'follows the weights'; relative "
             "tolerance 2^-40 only where weights=None with three triangles (1/3).",
        tech="Lean 4 theorems over Q on a blend model with the RNG draws as parameters + differential correspondence"),
    "C17": dict(level=TV, ref="§7 C17",
        text="18 kernel-checked theorems about the structural core of the resamplers: reimposeRank_order / _perm "
             "(rank re-imposition used by maximum-entropy bootstrap and moment_match), develop_first_unchanged, "
             "develop_coords_fields, bootstrap_count, thin_same_positions, thin_scalars_untouched, thin_eq_self, "
             "thin_error, momentMatch_structure; two composition statements OPEN. RNG draws are parameters. "
             "Correspondence: Spec predicates on implementation outputs (structure, bootstrap=i detail, first cell "
             "unchanged, rank order, thin index consistency, same seed same output).",
        note=COMMON_NOTE + "Outside the model (checked numerically in Python only, labelled in the evidence): resampling "
             "distributions, maximum-entropy quantile arithmetic, mean/variance match of moment_match; numpy RNG.",
        tech="Lean 4 theorems on rank re-imposition / thinning / development models + Spec predicates on "
             "implementation outputs"),
    "C18": dict(level=TV, ref="§7 C18",
        text="16 kernel-checked theorems: currency_spec (bijection input/output cells, exactly the generated "
             "currency fields times the slice rate, everything else unchanged, target set; both refusals), disagg_sum "
             "and disagg_weights_sum_one (renormalised weights sum to 1 over Q so sub-period values add up), "
             "policyYear_basis, policyYear_conserves_partial (normalised share rows sum to 1), premium_sums, "
             "premium_nonneg; five statements OPEN (full policy-year conservation through the model, "
             "premium_earned_le_written, aggregate-back composition). CURRENCY_FIELDS and the interpolation-field list "
             "are regenerated from /repo each run. Correspondence over four streams (currency, disaggregation, policy "
             "year, premium pattern) with conservation Specs evaluated on the implementation's outputs, incl. "
             "aggregate(disaggregate(t)) = t on the implementation.",
        note=COMMON_NOTE + "Exact on dyadic data; relative tolerance 2^-40 where the code divides (default 1/n weights, "
             "renormalisation, share and pattern normalisation). Policy-year conversion with continuous_issuance=False "
             "and accident periods no policy reaches is outside the share table's contract (reported as uncovered).",
        tech="Lean 4 theorems over Q (conservation laws) + regenerated tables + differential correspondence"),
}

PENDING = ("check under construction in this round (model and correspondence not yet integrated); it will be claimed "
           "once its Lean theorems and correspondence run clean on the unchanged tree")


def main():
    props = [json.loads(l) for l in open(os.path.join(ROOT, "properties.jsonl"))]
    checks, na = [], []
    for p in props:
        i = p["id"]
        if i in CLAIMS:
            c = CLAIMS[i]
            checks.append({
                "property_id": i, "quick_cmd": f"./check {i} quick", "thorough_cmd": f"./check {i} thorough",
                "evidence_file": f"evidence/{i}.json", "replay_cmd_template": "cat {path}", "engine": "lean4-model",
                "level_claimed": {"category": c["level"], "text": c["text"], "design_ref": c["ref"]},
                "level_note": c["note"], "technique": c["tech"]})
        else:
            na.append({"property_id": i, "reason": PENDING})
    m = {
        "version": 1,
        "setup_cmd": "bash tools/setup.sh",
        "hooks": {"guard": "BERMUDA_LEDGER_VERIF",
                  "enable": "no source hooks: every observable is reached through the public API from the harness "
                            "process (./check exports BERMUDA_LEDGER_VERIF=1 but nothing in /repo reads it)",
                  "baseline_off_cmd": "cd /repo && /venv/bin/python -m pytest -ra -q -p no:cacheprovider --timeout=900 --continue-on-collection-errors",
                  "source_commits": [], "add_only": True},
        "engines": [{"name": "lean4-model", "path": "lean", "serves_properties": [c["property_id"] for c in checks],
                     "kind_free_text": "Lean 4.33 library Bermuda (core-only executable model, Spec predicates, "
                                       "property theorems) + compiled drivers drv_cXX + Python correspondence harness + "
                                       "translator regenerating Generated/*.lean from /repo"}],
        "checks": checks,
        "notes": "exit codes: 0 held, 1 VIOLATION line, 2 infrastructure/timeout. VERIF_SEED selects the PRNG stream. "
                 "known_findings.json lists genuine defects (fixed: repaired by a fix: commit; known: recorded).",
        "not_applicable": na,
    }
    json.dump(m, open(os.path.join(ROOT, "MANIFEST.json"), "w"), indent=1)
    # library root imports every claimed property module
    root = ["import Bermuda.Model.Basic", "import Bermuda.Model.Order", "import Bermuda.Model.Triangle",
            "import Bermuda.Model.Ops", "import Bermuda.Model.DateUtils", "import Bermuda.Model.Json"]
    root += [f"import Bermuda.Properties.{c['property_id']}" for c in checks]
    open(os.path.join(ROOT, "lean", "Bermuda.lean"), "w").write("\n".join(root) + "\n")
    print("claimed:", [c["property_id"] for c in checks])


if __name__ == "__main__":
    main()
