#!/usr/bin/env python3
"""seeded/RESULTS.json -> seeded/RESULTS.md (which check catches which seeded change)"""
import json, os
root = os.path.dirname(os.path.dirname(os.path.abspath(__file__)))
res = json.load(open(os.path.join(root, "seeded", "RESULTS.json")))
lines = ["| seeded change | property | what it needs | check → result |", "|---|---|---|---|"]
for name in sorted(res):
    r = res[name]
    mp = os.path.join(root, "seeded", name, "meta.json")
    meta = json.load(open(mp)) if os.path.exists(mp) else {}
    if "error" in r:
        lines.append(f"| {name} | {meta.get('property','?')} | | ERROR {r['error'][:60]} |")
        continue
    outcome = "; ".join(
        f"{p}: " + ("caught (failing input)" if c["exit"] == 1 and c["violation_line"] and "no-failing-input-found" not in c["violation_line"]
                    else "caught (no-failing-input-found)" if c["exit"] == 1 else "MISSED" if c["exit"] == 0 else f"error exit {c['exit']}")
        for p, c in r["checks"].items())
    needs = (meta.get("needs") or "").replace("|", "/").replace("\n", " ")[:160]
    lines.append(f"| {name} | {r['property']} | {needs} | {outcome} |")
open(os.path.join(root, "seeded", "RESULTS.md"), "w").write("\n".join(lines) + "\n")
print("\n".join(lines))
