#!/usr/bin/env python3
"""Run the registered checks against the seeded breaking changes kept under /verif/seeded/<name>/
(patch.diff, demo.py, meta.json).

Default mode (--isolated): a scratch worktree of /repo and a private copy of /verif under /tmp are
used (VERIF_REPO points the harness at the worktree), so nothing else running in /verif or /repo is
disturbed. With --in-place the patch is applied to /repo itself (git apply), the checks run from
/verif, and the patch is undone straight afterwards (git checkout -- .), as the task brief asks.
Results are written to seeded/RESULTS.json and printed as a table.
"""
import argparse
import json
import os
import shutil
import subprocess
import sys
import time

ROOT = os.path.dirname(os.path.dirname(os.path.abspath(__file__)))
SEEDED = os.path.join(ROOT, "seeded")


def sh(cmd, cwd=None, env=None, timeout=3000):
    p = subprocess.run(cmd, cwd=cwd, env=env, capture_output=True, text=True, timeout=timeout, shell=isinstance(cmd, str))
    return p.returncode, p.stdout + p.stderr


def main():
    ap = argparse.ArgumentParser()
    ap.add_argument("names", nargs="*")
    ap.add_argument("--in-place", action="store_true")
    ap.add_argument("--tier", default="quick")
    ap.add_argument("--checks", default=None, help="comma separated property ids (default: the one in meta.json)")
    ap.add_argument("--seed", default="0")
    a = ap.parse_args()
    names = a.names or sorted(d for d in os.listdir(SEEDED) if os.path.isdir(os.path.join(SEEDED, d)))
    results = {}
    if os.path.exists(os.path.join(SEEDED, "RESULTS.json")):
        results = json.load(open(os.path.join(SEEDED, "RESULTS.json")))
    if a.in_place:
        repo, verif = "/repo", ROOT
    else:
        repo, verif = "/tmp/seed_repo", "/tmp/seed_verif"
        sh(["git", "-C", "/repo", "worktree", "remove", "--force", repo])
        rc, out = sh(["git", "-C", "/repo", "worktree", "add", "--detach", repo, "HEAD"])
        assert rc == 0, out
        sh(["rsync", "-a", "--delete", "--exclude", ".git", "--exclude", "replays", ROOT + "/", verif + "/"])
    try:
        for name in names:
            d = os.path.join(SEEDED, name)
            meta = json.load(open(os.path.join(d, "meta.json")))
            props = a.checks.split(",") if a.checks else [meta["property"]] + meta.get("also_check", [])
            rc, out = sh(["git", "-C", repo, "apply", os.path.join(d, "patch.diff")])
            if rc != 0:
                results[name] = {"error": "patch does not apply: " + out[-300:]}
                print(name, "PATCH DOES NOT APPLY")
                continue
            try:
                env = dict(os.environ, VERIF_REPO=repo, VERIF_SEED=a.seed, PYTHONPATH=repo)
                demo_rc = None
                if os.path.exists(os.path.join(d, "demo.py")):
                    demo_rc, _ = sh(["/venv/bin/python", os.path.join(d, "demo.py")], cwd=repo, env=env, timeout=900)
                res = {"property": meta["property"], "demo_exit_with_change": demo_rc, "checks": {}}
                for p in props:
                    t0 = time.time()
                    env2 = dict(os.environ, VERIF_REPO=repo, VERIF_SEED=a.seed)
                    rc, out = sh([os.path.join(verif, "check"), p, a.tier], cwd=verif, env=env2)
                    vio = [l for l in out.splitlines() if l.startswith("VIOLATION")]
                    res["checks"][p] = {"exit": rc, "violation_line": vio[0] if vio else None,
                                        "wall_s": round(time.time() - t0, 1), "tail": out.strip().splitlines()[-1:] }
                    print(f"{name:28s} {p} exit={rc} {'CAUGHT' if rc == 1 and vio else 'MISSED' if rc == 0 else 'ERROR'} {vio[0] if vio else ''}")
                results[name] = res
            finally:
                sh(["git", "-C", repo, "checkout", "--", "."])
    finally:
        if not a.in_place:
            sh(["git", "-C", "/repo", "worktree", "remove", "--force", repo])
            shutil.rmtree(verif, ignore_errors=True)
        else:
            # restore generated tables for the unchanged tree
            sh(["/venv/bin/python", os.path.join(ROOT, "harness", "translate.py")], cwd=ROOT,
               env=dict(os.environ, PYTHONPATH=os.path.join(ROOT, "harness")))
    json.dump(results, open(os.path.join(SEEDED, "RESULTS.json"), "w"), indent=1)


if __name__ == "__main__":
    main()
