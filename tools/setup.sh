#!/bin/bash
# MANIFEST.setup_cmd: regenerate tables from /repo, then build the Lean library and, per claimed
# property, its theorem module and its driver. A failure of one property's target does not stop
# the others (its own check will then report an infrastructure error).
set -u
here="$(cd "$(dirname "${BASH_SOURCE[0]}")/.." && pwd)"
cd "$here"
export PYTHONPATH="$here/harness${PYTHONPATH:+:$PYTHONPATH}"
/venv/bin/python harness/translate.py || echo "WARN: translator failed"
for f in harness/translate_c*.py; do [ -f "$f" ] && /venv/bin/python "$f" || true; done
cd lean
ids=$(/venv/bin/python - <<'PY'
import json
m=json.load(open("../MANIFEST.json"))
print(" ".join(c["property_id"] for c in m["checks"]))
PY
)
rc=0
for id in $ids; do
  lid=$(echo "$id" | tr 'A-Z' 'a-z')
  mkdir -p .lake; flock .lake/verif.lock lake build "Bermuda.Properties.$id" "drv_$lid" 2>&1 | tail -3 || true
  if [ "${PIPESTATUS[0]}" != "0" ]; then echo "WARN: build of $id failed"; rc=1; fi
done
# the library root imports every property module together: catches name clashes between properties
flock .lake/verif.lock lake build Bermuda 2>&1 | tail -2 || echo "WARN: root library build failed"
exit 0
